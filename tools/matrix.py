#!/usr/bin/env python3
"""tools/matrix.py [--sandboxes N] [--tier quick] [ids...]
Runs, for every kept change under seeded/, every check that exercises the file(s) the change touches,
in N private sandboxes (a git worktree of /repo plus a copy of /verif whose harness points at that
worktree), so /repo itself is never modified.  Results go to seeded/<id>/meta.json ("matrix")."""
import glob, json, os, re, shutil, subprocess, sys, threading, queue
V = os.path.dirname(os.path.dirname(os.path.abspath(__file__)))
REL = {
    "src/key/tree.rs": ["C01", "C06", "C07", "C20", "C02", "C11", "C10", "C18", "C12", "C19"],
    "src/key/pool.rs": ["C01", "C06", "C02", "C11", "C10", "C12"],
    "src/key/list.rs": ["C13", "C07", "C20", "C12", "C18", "C10", "C19"],
    "src/key/array.rs": ["C07", "C19", "C10", "C13"],
    "src/key/node.rs": ["C01", "C06", "C07", "C20", "C02"],
    "src/map/tree.rs": ["C04", "C08", "C17", "C02", "C11", "C10", "C12", "C18"],
    "src/map/pool.rs": ["C04", "C08", "C17", "C02", "C11", "C10", "C12"],
    "src/set/tree.rs": ["C05", "C08", "C09", "C17", "C02", "C11", "C10", "C12", "C18"],
    "src/set/pool.rs": ["C05", "C08", "C09", "C17", "C02", "C11", "C10", "C12"],
    "src/set/list.rs": ["C13", "C10", "C12", "C18"],
    "src/map/list.rs": ["C13", "C10", "C12", "C18"],
}
SEG = ["C03", "C14", "C15", "C16", "C10", "C12", "C18"]

ONLY = None


def relevant(patch):
    if ONLY == ["target"]:
        meta = json.load(open(os.path.join(os.path.dirname(patch), "meta.json")))
        return [meta["breaks_property"]]
    if ONLY:
        return list(ONLY)
    files = sorted(set(re.findall(r"^\+\+\+ b/(\S+)", open(patch).read(), re.M)))
    out = []
    for f in files:
        for p in (SEG if f.startswith("src/seg/") else REL.get(f, [])):
            if p not in out:
                out.append(p)
    return out

def sh(cmd, **kw):
    return subprocess.run(cmd, stdout=subprocess.PIPE, stderr=subprocess.STDOUT, text=True, **kw)

def make_sandbox(k):
    root = f"/tmp/mx-{k}"
    if os.path.isdir(root):
        sh(["git", "-C", "/repo", "worktree", "remove", "--force", root + "/repo"])
        shutil.rmtree(root, ignore_errors=True)
    os.makedirs(root)
    sh(["git", "-C", "/repo", "worktree", "add", "--detach", root + "/repo", "HEAD"])
    sh(["rsync", "-a", "--exclude", "work", "--exclude", "target", "--exclude", ".git", "--exclude", "seeded", V + "/", root + "/verif/"])
    ct = root + "/verif/harness/Cargo.toml"
    txt = open(ct).read().replace('path = "/repo"', f'path = "{root}/repo"')
    open(ct, "w").write(txt)
    return root

def worker(k, q, tier, lock):
    root = make_sandbox(k)
    while True:
        try:
            mid = q.get_nowait()
        except queue.Empty:
            break
        d = os.path.join(V, "seeded", mid)
        patch = os.path.join(d, "patch.diff")
        props = relevant(patch)
        r = sh(["git", "-C", root + "/repo", "apply", patch])
        res = {}
        try:
            for p in props:
                c = sh([root + "/verif/check", p, "--tier", tier], cwd=root + "/verif")
                tagline = next((l.strip() for l in c.stdout.splitlines() if l.startswith("   ")), "")
                mm = re.search(r"^(\S+) (\w+) at event", tagline)
                res[p] = {1: "DETECTED", 0: "quiet"}.get(c.returncode, "TOOL-ERROR") + (f" {mm.group(2)}@{mm.group(1)}" if mm and c.returncode == 1 else "")
                if c.returncode == 2:
                    res[p] += " " + next((l for l in c.stdout.splitlines() if l.startswith("TOOL-ERROR")), "")[:160]
                with lock:
                    print(f"[mx-{k}] {mid} {p}: {res[p]}", flush=True)
        finally:
            sh(["git", "-C", root + "/repo", "checkout", "--", "."])
        with lock:
            meta = json.load(open(os.path.join(d, "meta.json")))
            old = meta.get("matrix", {}).get("results", {}) if meta.get("matrix", {}).get("tier") == tier else {}
            meta["matrix"] = {"tier": tier, "results": dict(old, **res)}
            json.dump(meta, open(os.path.join(d, "meta.json"), "w"), indent=1)
    sh(["git", "-C", "/repo", "worktree", "remove", "--force", root + "/repo"])
    shutil.rmtree(root, ignore_errors=True)

def main():
    a = sys.argv[1:]
    n, tier, ids, base = 3, "quick", [], 0
    global ONLY
    i = 0
    while i < len(a):
        if a[i] == "--sandboxes": n = int(a[i + 1]); i += 2
        elif a[i] == "--tier": tier = a[i + 1]; i += 2
        elif a[i] == "--base": base = int(a[i + 1]); i += 2
        elif a[i] == "--props": ONLY = a[i + 1].split(","); i += 2
        else: ids.append(a[i]); i += 1
    if not ids:
        ids = sorted(os.path.basename(d) for d in glob.glob(os.path.join(V, "seeded", "*")))
    q = queue.Queue()
    for m in ids: q.put(m)
    lock = threading.Lock()
    ts = [threading.Thread(target=worker, args=(k + base, q, tier, lock)) for k in range(n)]
    for t in ts: t.start()
    for t in ts: t.join()

if __name__ == "__main__":
    main()
