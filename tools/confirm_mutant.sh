#!/bin/bash
# tools/confirm_mutant.sh <worktree> <i> : confirms in the scratch worktree that mutant i
#  - applies, compiles, keeps the existing suite green, makes its demo fail; and that the demo passes without it
set -u
WT=$1; I=$2
cd "$WT" || exit 2
export CARGO_TARGET_DIR=$WT/target CARGO_NET_OFFLINE=true
git checkout -q -- src || exit 2
FLAGS=""
grep -q 'cfg(itree_verif)' tests/demo_m$I.rs && FLAGS="--cfg itree_verif"
git apply mutants/m$I.diff || { echo "CONFIRM m$I: patch does not apply"; exit 1; }
# existing suite without the demos
mkdir -p /tmp/demo-stash-$$ && mv tests/demo_m*.rs /tmp/demo-stash-$$/
SUITE=$(cargo test --offline --no-fail-fast 2>&1 | grep -E "^test result" | awk '{p+=$4; f+=$6} END {print p" passed "f" failed"}')
mv /tmp/demo-stash-$$/demo_m*.rs tests/ && rmdir /tmp/demo-stash-$$
RUSTFLAGS="$FLAGS" cargo test --offline --test demo_m$I >/tmp/confirm-$$.log 2>&1; WITH=$?
git checkout -q -- src
RUSTFLAGS="$FLAGS" cargo test --offline --test demo_m$I >/tmp/confirm2-$$.log 2>&1; WITHOUT=$?
NT=$(grep -E "^test result" /tmp/confirm2-$$.log | head -1)
rm -f /tmp/confirm-$$.log /tmp/confirm2-$$.log
echo "CONFIRM $WT m$I: suite with patch: $SUITE; demo with patch exit=$WITH (want !=0); demo without patch exit=$WITHOUT (want 0) [$NT] flags='$FLAGS'"
[ "$WITH" != 0 ] && [ "$WITHOUT" = 0 ] && [[ "$SUITE" == "59 passed 0 failed" ]]
