#!/usr/bin/env python3
"""tools/run_seeded.py [ids...] [--tier quick] [--extra C02,C10] : runs the check of the property each kept change
breaks (plus extra checks) against it and records the outcome in its meta.json"""
import json, os, subprocess, sys, glob
V = os.path.dirname(os.path.dirname(os.path.abspath(__file__)))
ids = [a for a in sys.argv[1:] if not a.startswith("--")]
tier = "quick"
extra = []
for i, a in enumerate(sys.argv):
    if a == "--tier": tier = sys.argv[i + 1]
    if a == "--extra": extra = sys.argv[i + 1].split(",")
ids = [x for x in ids if x not in (tier, ",".join(extra))]
if not ids:
    ids = sorted(os.path.basename(d) for d in glob.glob(os.path.join(V, "seeded", "*")))
for mid in ids:
    d = os.path.join(V, "seeded", mid)
    meta = json.load(open(os.path.join(d, "meta.json")))
    props = [meta["breaks_property"]] + [p for p in extra if p != meta["breaks_property"]]
    r = subprocess.run([os.path.join(V, "tools", "mutant.py"), os.path.join(d, "patch.diff"), "--props", ",".join(props), "--tier", tier, "--notest"],
                       stdout=subprocess.PIPE, stderr=subprocess.STDOUT, text=True)
    lines = [l for l in r.stdout.splitlines() if l[:3] in [p[:3] for p in props] and ":" in l]
    for l in lines:
        p = l.split(":")[0]
        meta.setdefault("checks_run", {})[f"{p}/{tier}"] = l.split(":", 1)[1].strip()[:300]
        print(mid, l[:260], flush=True)
    json.dump(meta, open(os.path.join(d, "meta.json"), "w"), indent=1)
