#!/bin/bash
# tools/regen_evidence.sh : re-runs every quick check on the (unchanged) tree and validates the evidence.
# Run this before committing evidence/: mutant evaluations (tools/mutant.py, tools/run_seeded.py) overwrite evidence files.
cd "$(dirname "$0")/.." || exit 2
if [ -n "$(git -C /repo status --porcelain --untracked-files=no)" ]; then echo "/repo has uncommitted changes"; exit 2; fi
rc=0
for p in C01 C02 C03 C04 C05 C06 C07 C08 C09 C10 C11 C12 C13 C14 C15 C16 C17 C18 C19 C20; do
  ./check $p --tier quick 2>&1 | grep -E "^\[C|VIOLATION|TOOL-ERROR|MODEL-DRIFT" || rc=1
done
python3-vt - <<'PY' || rc=1
import json, jsonschema
sch = json.load(open('/root/.vp/EVIDENCE.schema.json'))
man = json.load(open('MANIFEST.json'))
jsonschema.validate(man, json.load(open('/root/.vp/MANIFEST.schema.json')))
for c in man['checks']:
    e = json.load(open(c['evidence_file']))
    jsonschema.validate(e, sch)
    assert e['level'] == c['level_claimed']['category'], c['property_id']
    assert e['violations'] == 0, c['property_id']
print("manifest and", len(man['checks']), "evidence files valid, no violation")
PY
exit $rc
