#!/bin/bash
# confirm_ref.sh <worktree> <i>: refactoring i keeps the suite green, builds with the cfg, its differential test passes with and without it
WT=$1; I=$2; cd $WT || exit 2
export CARGO_TARGET_DIR=$WT/target CARGO_NET_OFFLINE=true
git checkout -q -- src
cargo test --offline --test demo_m$I >/dev/null 2>&1; WITHOUT=$?
git apply mutants/m$I.diff || { echo "m$I does not apply"; exit 1; }
mkdir -p /tmp/demo-stash-$$ && mv tests/demo_m*.rs /tmp/demo-stash-$$/
SUITE=$(cargo test --offline --no-fail-fast 2>&1 | grep -E "^test result" | awk '{p+=$4; f+=$6} END {print p" passed "f" failed"}')
mv /tmp/demo-stash-$$/demo_m*.rs tests/ && rmdir /tmp/demo-stash-$$
cargo test --offline --test demo_m$I >/dev/null 2>&1; WITH=$?
RUSTFLAGS="--cfg itree_verif" cargo build --offline >/dev/null 2>&1; CFG=$?
git checkout -q -- src
echo "CONFIRM-REF $WT m$I: suite with patch: $SUITE; demo with patch exit=$WITH; demo without exit=$WITHOUT; cfg build exit=$CFG"
[ "$WITH" = 0 ] && [ "$WITHOUT" = 0 ] && [ "$CFG" = 0 ] && [[ "$SUITE" == "59 passed 0 failed" ]]
