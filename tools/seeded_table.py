#!/usr/bin/env python3
"""prints the markdown table of DESIGN.md section 13 from seeded/*/meta.json (checks_run + matrix)"""
import glob, json, os, re
V = os.path.dirname(os.path.dirname(os.path.abspath(__file__)))
print("| change | file | what it is | breaks | checks that report it (predicate) | relevant checks that stay quiet |")
print("|---|---|---|---|---|---|")
for d in sorted(glob.glob(os.path.join(V, "seeded", "*"))):
    m = json.load(open(os.path.join(d, "meta.json")))
    md = m["needs_to_manifest"]
    files = sorted(set(re.findall(r"^\+\+\+ b/(\S+)", open(os.path.join(d, "patch.diff")).read(), re.M)))
    first = " ".join(md.strip().split())
    first = re.sub(r"^#+\s*", "", first)
    first = re.sub(r"^[mr]\d\s*[-—–:(]+\s*", "", first)
    first = first[:140].rsplit(" ", 1)[0].replace("|", "/")
    res = dict(m.get("matrix", {}).get("results", {}))
    for k, v in m.get("checks_run", {}).items():      # target check run directly against /repo
        p = k.split("/")[0]
        if p not in res:
            mm = re.search(r"(\S+) (\w+) at event", v)
            res[p] = v.split("(")[0].strip().upper().replace("MISSED", "quiet") + (f" {mm.group(2)}@{mm.group(1)}" if mm else "")
    det = [f"{p} (`{v.split()[1].split('@')[0]}`)" if len(v.split()) > 1 else p for p, v in sorted(res.items()) if v.startswith("DETECTED")]
    quiet = [p for p, v in sorted(res.items()) if v.startswith("quiet")]
    err = [p for p, v in sorted(res.items()) if v.startswith("TOOL")]
    tgt = m.get("breaks_property") or "nothing (refactoring)"
    print(f"| {os.path.basename(d)} | {', '.join(f.replace('src/', '') for f in files)} | {first} … | {tgt} | {', '.join(det) or '—'}{(' ; tool error: ' + ', '.join(err)) if err else ''} | {', '.join(quiet) or '—'} |")
