#!/usr/bin/env python3
"""prints the markdown table of DESIGN.md section 13 from seeded/*/meta.json"""
import glob, json, os, re
V = os.path.dirname(os.path.dirname(os.path.abspath(__file__)))
print("| change | what it does (needs in order to manifest) | check | caught by predicate | first event |")
print("|---|---|---|---|---|")
for d in sorted(glob.glob(os.path.join(V, "seeded", "*"))):
    m = json.load(open(os.path.join(d, "meta.json")))
    md = m["needs_to_manifest"]
    files = sorted(set(re.findall(r"^\+\+\+ b/(\S+)", open(os.path.join(d, "patch.diff")).read(), re.M)))
    first = " ".join(md.strip().split())
    first = re.sub(r"^#+\s*", "", first)[:170]
    for k, v in sorted(m.get("checks_run", {}).items()):
        verdict = v.split("(")[0].strip()
        mm = re.search(r"(\S+) (\w+) at event (\d+)", v)
        tag = f"`{mm.group(2)}` on {mm.group(1)}" if mm else "-"
        ev = mm.group(3) if mm else "-"
        print(f"| {os.path.basename(d)} ({', '.join(f.replace('src/', '') for f in files)}) | {first} | {k} | {verdict}: {tag} | {ev} |")
