#!/usr/bin/env python3
"""tools/mutant.py <patch.diff> [--props C01,C06] [--tier quick]
Applies a patch to /repo, runs the named checks (default: all), reverts the patch (always), and
prints which checks reported a VIOLATION (detected), passed (missed) or failed (tool error).
The baseline test-suite is run first with the patch applied (it must still pass)."""
import json, os, subprocess, sys, time
V = os.path.dirname(os.path.dirname(os.path.abspath(__file__)))

def main():
    patch = os.path.abspath(sys.argv[1])
    props = None
    tier = "quick"
    notest = False
    a = sys.argv[2:]
    i = 0
    while i < len(a):
        if a[i] == "--props":
            props = a[i + 1].split(","); i += 2
        elif a[i] == "--tier":
            tier = a[i + 1]; i += 2
        elif a[i] == "--notest":
            notest = True; i += 1
        else:
            i += 1
    if props is None:
        props = [json.loads(l)["id"] for l in open(os.path.join(V, "properties.jsonl"))]
    st = subprocess.run(["git", "-C", "/repo", "status", "--porcelain", "--untracked-files=no"], stdout=subprocess.PIPE, text=True).stdout
    if st.strip():
        print("refusing: /repo has uncommitted changes"); return 2
    r = subprocess.run(["git", "-C", "/repo", "apply", patch])
    if r.returncode != 0:
        print("patch does not apply"); return 2
    res = {}
    try:
        if not notest:
            t = subprocess.run("cd /repo && cargo test --workspace --no-fail-fast --offline 2>&1 | grep -E '^test result' | grep -v ' 0 failed' | wc -l",
                               shell=True, stdout=subprocess.PIPE, text=True).stdout.strip()
            print("baseline suite with the patch applied:", "PASSES" if t == "0" else "FAILS")
        for p in props:
            t0 = time.time()
            c = subprocess.run([os.path.join(V, "check"), p, "--tier", tier], stdout=subprocess.PIPE, stderr=subprocess.STDOUT, text=True, cwd=V)
            first = next((l for l in c.stdout.splitlines() if l.startswith("VIOLATION") or l.startswith("TOOL-ERROR")), "")
            detail = next((l.strip() for l in c.stdout.splitlines() if l.startswith("   ")), "")
            res[p] = c.returncode
            print(f"{p}: {'DETECTED' if c.returncode == 1 else 'missed' if c.returncode == 0 else 'TOOL-ERROR'} ({time.time()-t0:.0f}s) {first[:120]} {detail[:160]}", flush=True)
    finally:
        subprocess.run(["git", "-C", "/repo", "checkout", "--", "."])
    print("RESULT", json.dumps(res))
    return 0

if __name__ == "__main__":
    sys.exit(main())
