#!/usr/bin/env python3
"""writes /verif/MANIFEST.json from the table below (run after changing the set of claimed checks)"""
import json, os, subprocess
V = os.path.dirname(os.path.dirname(os.path.abspath(__file__)))

def git(*a):
    return subprocess.run(["git", "-C", "/repo", *a], stdout=subprocess.PIPE, text=True).stdout

hooks = [l.split()[0] for l in git("log", "--format=%h %s").splitlines() if l.split(" ", 1)[1].startswith("verif hook:")]

COMMON_NOTE = ("Trusted base: TLC/SANY; the layer-1 model speaks for the code only through the validated transitions; the harness build "
               "(debug assertions, overflow checks, unsafe-precondition checks, opt-level 2) stands for the release build; read-only "
               "cfg(itree_verif) snapshot hooks; in-contract input generation by the harness (re-checked by the trace specification as "
               "enabling conditions).")
T = "TLA+ model checking (TLC; Apalache for the integer abstractions of C11 and C14) + TLC validation of traces recorded from the real code"
C = {
 "C01": ("TLC decides all three predecessor queries against KeyExpRef for every history over 3-5 keys x 3-5 instants (fixpoint, unbounded length, time of each call free); every state of the model's cover is re-created on the real KeyExpTree, every in-contract call is made there and the logged result and snapshot are validated by TLC; seeded random histories on 8-24 keys on top.", "6/C01"),
 "C02": ("WellFormed (BST order, link consistency, no red-red, equal black heights, sentinel unlinked, height <= 2log2(n+1)+1) is an invariant of MCOrd (6-9 keys, capacity hints) and MCKey; TLC evaluates the same predicate on the snapshot of every logged state of MapTree, SetTree and KeyExpTree (cover fan-out, random churn on 64 keys, monotone fills, sampled snapshots of trees with hundreds of entries); the EXACT comparison shows zero drift between the real arena and the model.", "6/C02"),
 "C03": ("MCSeg explores every history of inserts / iterator new-next-drop / clear for heap heights 2-3; TLC validates real-tree traces over nine domains against SegRef (no duplicate, only allowed values, complete when consumed) and the complete 528x528 range matrix.", "6/C03"),
 "C04": ("MCOrd refines OrdRef on every transition (insert / delete present+absent / write through handle / clear); real MapTree with i32 and String values: cover fan-out from every reachable tree over 5-6 keys, random histories, contents compared by TLC through the snapshot after every call.", "6/C04"),
 "C05": ("as C04 on SetTree with key+payload values (i32 and String payload) so that a payload mix-up by the successor-value move is visible.", "6/C05"),
 "C06": ("get_value for every stored / expired / never-stored key at every time is part of MCKey's alphabet and of the fan-out on the real tree; the as-coded descent is refuted by AsCodedD1.cfg in 3 states.", "6/C06"),
 "C07": ("ExportOK (explicit-stack traversal = KeyExpRef export, for every t >= now) is an invariant of MCKey; every covered state of the real tree and list is exported at every admissible time and random histories end every segment with an export; TLC compares with the reference.", "6/C07"),
 "C08": ("HandlesOK is an invariant of MCOrd (both forms, every probe, agreement); on the real trees every handle query is followed by a read through the handle, and write / delete through it are checked by TLC on the snapshot (exactly that entry changed / removed).", "6/C08"),
 "C09": ("StepsOK (both neighbour steps from every stored entry, full forward and backward walks) is an invariant of MCOrd; the real SetTree is stepped from every stored entry of every covered state and walked end to end with a step budget.", "6/C09"),
 "C10": ("every model accesses arena and chunk vector through asserting accessors; every trace of every driver on all seven collections comes from a build in which each unchecked index is checked, under catch_unwind and a watchdog, and TLC accepts only calls that returned normally.", "6/C10"),
 "C11": ("PoolOK (exact partition sentinel / tree / free list) and the growth bound are invariants of MCOrd / MCKey for capacity hints 0,1,8,9,32; the storage bound itself is an inductive invariant of the integer abstraction of the pool (PoolSym) discharged by Apalache for arenas and histories of every size, and the concrete models assert that every transition projects onto its abstract steps; TLC evaluates PoolOK and a bound on arena slots vs. peak population on every logged snapshot, including churn on 64 keys, clear churn, large capacity hints and sampled large trees.", "6/C11"),
 "C12": ("clear is asserted to lead to the initial abstract state from every reachable model state; on the real code `P; clear; S` and `S` on a fresh instance are validated by TLC and compared result by result, for all seven collections.", "6/C12"),
 "C13": ("the same layer-0 modules validate traces of KeyExpList, MapList, SetList (handles = positions, sentinel past either end); MCKeyList model-checks the min_exp shortcut (lower bound of stored expirations; no expired entry observable, no live one dropped).", "6/C13"),
 "C14": ("the layout arithmetic (built iff > 16 points, bucket range, monotonicity, least width, chunk count, scaling lemma) is checked symbolically with Apalache for every domain length up to 2^62 and every offset (SegLayoutSym), and by TLC (MCLayout) on a grid of lengths; SegExpTree::new is run over a grid of i32/u32/i64 domains and TLC checks Some/None, chunk count, place of single-point inserts and visibility from single-point queries at lo, hi and bucket edges.", "6/C14"),
 "C15": ("complete static TLC check for H=5 (528 ranges, 278 784 pairs): transcribed loops = declarative masks, exact tiling, <= 8 places, meet iff overlap; the real tree over [0,31] is probed for all 528 insert ranges x 528 query ranges.", "6/C15"),
 "C16": ("MCSeg asserts that after next() returns None for a whole-domain query no stored copy has e < t; on the real tree the stored copies (hook) after every completely consumed whole-domain query must be exactly the copies of the unexpired values.", "6/C16"),
 "C17": ("in MCOrd every insert transition from every reachable state is asserted to leave the entity of every stored slot unchanged; on the real trees handles for all stored entries are held over all insertion orders of the absent keys and re-read after each insertion, and TLC checks slot stability on the snapshots.", "6/C17"),
 "C18": ("fault enumeration validated by TLC: every callback index of every call from every covered state panics once; the post-panic snapshot must be WellFormed, PoolOK and show the contents before or after the call, and the collection is used again (with a panic-free control run of the same follow-up); MCKey, MCSeg and MCKeyList explore the panic successors of every callback point.", "6/C18"),
 "C19": ("ExportCap <= 8n+64 is an invariant of MCKey (the as-coded estimate is refuted at n=4); the real export's capacity is logged for every covered state, for 0..64 entries in three insertion orders and for powers of ten up to 10^5 (quick) / 2*10^6 (thorough).", "6/C19"),
 "C20": ("the callback log of the layer-1 model shows only live stored keys reaching cmp/closure on every transition of MCKey; instrumented key and comparator types record both arguments of every comparison on the real tree and list and TLC checks each against the call's time.", "6/C20"),
}
checks = []
for pid in sorted(C):
    text, ref = C[pid]
    checks.append({
        "property_id": pid,
        "quick_cmd": f"./check {pid} --tier quick",
        "thorough_cmd": f"./check {pid} --tier thorough",
        "evidence_file": f"evidence/{pid}.json",
        "replay_cmd_template": "./check replay {path}",
        "engine": "tlc",
        "level_claimed": {"category": "fault_enumeration" if pid == "C18" else "model_checking", "text": text, "design_ref": "DESIGN.md section " + ref},
        "level_note": COMMON_NOTE,
        "technique": T if pid != "C18" else "callback-fault enumeration on the real code, each post-panic state validated by TLC against the TLA+ specification; PanicAt transitions model-checked",
    })
m = {
 "version": 1,
 "setup_cmd": "./check setup",
 "hooks": {"guard": "itree_verif", "enable": "rustflags --cfg itree_verif in /verif/harness/.cargo/config.toml (reaches the path dependency /repo)",
           "baseline_off_cmd": "cd /repo && cargo test --workspace --no-fail-fast --offline",
           "source_commits": hooks, "add_only": True},
 "engines": [{"name": "tlc", "path": "spec/", "serves_properties": sorted(C), "kind_free_text": "TLA+ specification in three layers (reference semantics, implementation-shaped models, trace specifications) checked with TLC; Rust harness in harness/ records traces of the real code"}],
 "checks": checks,
 "not_applicable": [],
 "notes": "Every verdict is produced by TLC (trace rejected / predicate false on a logged state); see DESIGN.md. Genuine defects D1-D5 were repaired by fix: commits and are listed in known_findings.json as fixed.",
}
json.dump(m, open(os.path.join(V, "MANIFEST.json"), "w"), indent=1)
print("wrote MANIFEST.json with", len(checks), "checks; hook commits", hooks)
