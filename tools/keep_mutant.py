#!/usr/bin/env python3
"""tools/keep_mutant.py <worktree> <prop> <i> : after tools/confirm_mutant.sh succeeded, copies the change into /verif/seeded/<prop>-m<i>/"""
import json, os, shutil, sys, subprocess
wt, prop, i = sys.argv[1], sys.argv[2], sys.argv[3]
name = sys.argv[4] if len(sys.argv) > 4 else f"{prop}-m{i}"
V = os.path.dirname(os.path.dirname(os.path.abspath(__file__)))
d = os.path.join(V, "seeded", name)
os.makedirs(d, exist_ok=True)
shutil.copy(os.path.join(wt, "mutants", f"m{i}.diff"), os.path.join(d, "patch.diff"))
shutil.copy(os.path.join(wt, "tests", f"demo_m{i}.rs"), os.path.join(d, "demo.rs"))
md = open(os.path.join(wt, "mutants", f"m{i}.md")).read()
r = subprocess.run([os.path.join(V, "tools", "confirm_mutant.sh"), wt, i], stdout=subprocess.PIPE, stderr=subprocess.STDOUT, text=True)
meta = {"breaks_property": prop, "origin": "independent sub-agent given only the property text and a scratch worktree",
        "needs_to_manifest": md, "confirmed_by": "tools/confirm_mutant.sh (scratch worktree): " + r.stdout.strip().splitlines()[-1],
        "confirmed": r.returncode == 0, "checks_run": {}}
json.dump(meta, open(os.path.join(d, "meta.json"), "w"), indent=1)
print(d, "confirmed" if r.returncode == 0 else "NOT CONFIRMED")
