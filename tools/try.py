#!/usr/bin/env python3
"""tools/try.py <patch.diff|-> <collection> <driver> [k=v ...] : applies a patch to /repo (or none for '-'), rebuilds the
harness, runs one driver, lets TLC validate the trace, prints the predicate tags violated, and reverts the patch."""
import os, subprocess, sys, collections
V = os.path.dirname(os.path.dirname(os.path.abspath(__file__)))
sys.path.insert(0, os.path.join(V, "lib"))
import vlib, plans
patch, coll, driver = sys.argv[1], sys.argv[2], sys.argv[3]
params = dict(a.split("=", 1) for a in sys.argv[4:])
if patch != "-":
    subprocess.run(["git", "-C", "/repo", "apply", os.path.abspath(patch)], check=True)
try:
    wd = vlib.workdir("try", fresh=True)
    out = os.path.join(wd, "t.ndjson")
    h = vlib.run_harness(coll, driver, params, out)
    v = vlib.tlc_trace(plans.spec_of(coll), out, os.path.join(wd, "meta"), big=int(params.get("deep", 0)) > 500000)
    c = collections.Counter(x["tag"] for x in v["viols"])
    print(f"{coll}/{driver}: status={h['status']} events={h['events']} accepted={v['accepted']} wall={v['wall']:.1f}s viols={dict(c)} breaches={len(v['breaches'])} drift={len(v['drift'])}")
    for x in v["viols"][:3]:
        print("  ", x["tag"], x["l"], str(x["info"])[:200])
finally:
    if patch != "-":
        subprocess.run(["git", "-C", "/repo", "checkout", "--", "."])
        vlib._built = False
