"""Infrastructure shared by all checks: building and running the Rust harness, running TLC on
models and on recorded traces, parsing TLC's output.  No verdict logic lives here."""
import json
import os
import re
import shutil
import signal
import subprocess
import time

VERIF = os.path.dirname(os.path.dirname(os.path.abspath(__file__)))
SPEC = os.path.join(VERIF, "spec")
HARNESS = os.path.join(VERIF, "harness")
ITV = os.path.join(HARNESS, "target", "debug", "itv")
ITV_RAW = os.path.join(HARNESS, "target", "raw", "itv")
REPO = "/repo"


class ToolError(Exception):
    pass


def log(*a):
    print(*a, flush=True)


def workdir(pid, fresh=False):
    d = os.path.join(VERIF, "work", pid)
    if fresh and os.path.isdir(d):
        shutil.rmtree(d, ignore_errors=True)
    os.makedirs(d, exist_ok=True)
    return d


_built = False


def build_harness():
    """cargo rebuilds the harness and, through the path dependency, /repo's current working tree
    with --cfg itree_verif, debug assertions, overflow checks (see harness/Cargo.toml)."""
    global _built
    if _built:
        return
    env = dict(os.environ, CARGO_NET_OFFLINE="true")
    t0 = time.time()
    p = subprocess.run(["cargo", "build", "--offline", "--quiet"], cwd=HARNESS, env=env,
                       stdout=subprocess.PIPE, stderr=subprocess.STDOUT, text=True)
    if p.returncode != 0:
        errs = [ln for ln in p.stdout.splitlines() if ln.startswith("error")][:10]
        raise ToolError("harness / repository build failed:\n" + "\n".join(errs or p.stdout.splitlines()[-15:]))
    _built = True
    log(f"[build] harness built from /repo working tree in {time.time() - t0:.1f}s")


_built_raw = False
_raw_lock = __import__("threading").Lock()


def build_harness_raw():
    """the same sources without optimisation (profile `raw`), built on first use"""
    global _built_raw
    with _raw_lock:
        if _built_raw:
            return
        env = dict(os.environ, CARGO_NET_OFFLINE="true")
        t0 = time.time()
        p = subprocess.run(["cargo", "build", "--offline", "--quiet", "--profile", "raw"], cwd=HARNESS, env=env,
                           stdout=subprocess.PIPE, stderr=subprocess.STDOUT, text=True)
        if p.returncode != 0:
            raise ToolError("unoptimised harness build failed:\n" + "\n".join(p.stdout.splitlines()[-15:]))
        _built_raw = True
        log(f"[build] unoptimised harness built in {time.time() - t0:.1f}s")


def run_harness(coll, driver, params, out, timeout=None, raw=False):
    """Runs one driver.  A panic / abort / hang of the code under test is data: the run is repeated
    in journal mode and the call that did not return is appended as an event with out=aborted|timeout."""
    build_harness()
    if raw:
        build_harness_raw()
    if timeout is None:
        # watchdog for the code under test: a driver normally finishes within seconds
        timeout = 120 if os.environ.get("VERIF_TIER_EFFECTIVE", "quick") == "quick" else 900
    stats = out + ".stats"
    base = [ITV_RAW if raw else ITV, coll, driver, "--out", out, "--stats", stats] + [f"{k}={v}" for k, v in params.items()]

    def small_stack():
        # raw jobs run with the 1 MB stack of a spawned thread rather than the 8 MB of a main thread
        import resource
        resource.setrlimit(resource.RLIMIT_STACK, (1 << 20, 1 << 20))

    def once(extra, tmo):
        try:
            p = subprocess.run(base + extra, stdout=subprocess.PIPE, stderr=subprocess.PIPE, text=True, timeout=tmo,
                               preexec_fn=small_stack if raw else None)
            return p.returncode, p.stderr
        except subprocess.TimeoutExpired:
            return "timeout", ""

    rc, err = once([], timeout)
    status = "ok"
    if rc != 0:
        if rc == 2:
            raise ToolError(f"harness usage error: {err.strip()[:500]}")
        status = "timeout" if rc == "timeout" else "aborted"
        rc2, err2 = once(["--journal"], timeout)
        if rc2 == 0:
            raise ToolError(f"harness failed ({rc}) but the journal re-run succeeded: not deterministic. stderr: {err.strip()[:300]}")
        # keep only the last pending call, as an event that ended abnormally
        lines = open(out).read().splitlines()
        kept = []
        for i, ln in enumerate(lines):
            if ln.startswith('{"ev":"call"'):
                if i == len(lines) - 1:
                    ln = ln.replace('{"ev":"call"', '{"ev":"op"', 1).replace('"aborted"', f'"{status}"')
                    kept.append(ln)
            else:
                kept.append(ln)
        if not kept or '"%s"' % status not in kept[-1]:
            # died outside a library call (harness bug) -> tool error
            raise ToolError(f"harness died outside a library call: rc={rc2} {err2.strip()[:300]}")
        with open(out, "w") as f:
            f.write("\n".join(kept) + "\n")
        with open(stats, "w") as f:
            json.dump({"events": len(kept), "pairs": 0, "samples": []}, f)
    st = json.load(open(stats))
    return {"status": status, "trace": out, "events": st["events"], "pairs": st["pairs"], "samples": st.get("samples", []),
            "coll": coll, "driver": driver, "params": params}


JAVA_OPTS_TRACE = "-Xss1g -Xmx4g -XX:+UseParallelGC -XX:ParallelGCThreads=2"
JAVA_OPTS_MODEL = "-Xss256m -Xmx8g -XX:+UseParallelGC -XX:ParallelGCThreads=4"

NOISE = re.compile(r"^(Picked up|TLC2 Version|Running |Parsing file|Semantic processing|Starting\.\.\.|Implied-temporal|"
                   r"Computing initial|Computed \d|Finished computing|Progress\(|Finished in|Warning: Please|\(Use the|Linting of|"
                   r"Model checking completed|  Estimates of|  because two|  calculated|  based on|The depth of|The average outdegree|"
                   r"Checking \d|Finished checking)")


def _tlc(module, cfg, meta, env_extra, workers, java_opts, timeout, extra_args=()):
    os.makedirs(meta, exist_ok=True)
    env = dict(os.environ, JAVA_TOOL_OPTIONS=java_opts)
    env.update(env_extra)
    cmd = ["tlc", "-workers", str(workers), "-metadir", meta, "-cleanup", "-noGenerateSpecTE",
           "-config", cfg, *extra_args, module]
    t0 = time.time()
    try:
        p = subprocess.run(cmd, cwd=SPEC, env=env, stdout=subprocess.PIPE, stderr=subprocess.STDOUT, text=True, timeout=timeout)
    except subprocess.TimeoutExpired:
        raise ToolError(f"TLC timed out after {timeout}s on {module} / {cfg}")
    finally:
        shutil.rmtree(meta, ignore_errors=True)
    return p.returncode, p.stdout, time.time() - t0


def tlc_trace(module, trace, meta, timeout=1800, big=False):
    """Validates one recorded trace.  Returns accepted flag, violations, breaches."""
    opts = JAVA_OPTS_TRACE.replace("-Xmx4g", "-Xmx14g") if big else JAVA_OPTS_TRACE      # million-key reference states
    rc, out, wall = _tlc(module + ".tla", module + ".cfg", meta, {"TRACE": trace}, 1, opts, timeout,
                         extra_args=("-maxSetSize", "4000000") if big else ())
    viols, breaches, other, drift = [], [], [], []
    accepted = None
    for ln in out.splitlines():
        if ln.startswith('"VIOL '):
            body = json.loads(ln)[5:]
            tag, l, info = json.loads(body)
            viols.append({"tag": tag, "l": l, "info": info})
        elif ln.startswith('"BREACH '):
            body = json.loads(ln)[7:]
            l, info = json.loads(body)
            breaches.append({"l": l, "info": info})
        elif ln.startswith('"DRIFT '):
            drift.append(json.loads(json.loads(ln)[6:]))
        elif ln.startswith('<<"ACCEPTED"'):
            accepted = True
        elif ln.startswith('<<"REJECTED"'):
            accepted = False
            other.append(ln)
        elif ln.strip() and not NOISE.match(ln) and not re.match(r"^\d+ states generated", ln):
            other.append(ln)
    if accepted is None or rc != 0 and accepted is not False:
        raise ToolError(f"TLC failed on trace {trace} ({module}), rc={rc}:\n" + "\n".join(other[:25]))
    return {"accepted": accepted, "viols": viols, "breaches": breaches, "wall": wall, "other": other, "drift": drift}


def tlc_model(module, cfg, meta, workers=8, timeout=3600, extra_args=(), want_output=False):
    """Exhaustive TLC run of a model configuration.  Returns generated / distinct states; raises
    ToolError when TLC reports an error (a violated invariant of the model is an error of the
    specification, not a verdict about the code)."""
    rc, out, wall = _tlc(module + ".tla", cfg, meta, {}, workers, JAVA_OPTS_MODEL, timeout, extra_args)
    m = re.search(r"(\d+) states generated, (\d+) distinct states found, (\d+) states left on queue", out)
    ok = rc == 0 and m is not None and "Error:" not in out
    res = {"ok": ok, "wall": wall, "module": module, "cfg": cfg,
           "generated": int(m.group(1)) if m else 0, "distinct": int(m.group(2)) if m else 0}
    if want_output or not ok:
        res["out"] = out
    if not ok:
        lines = [ln for ln in out.splitlines() if ln.strip() and not NOISE.match(ln) and not ln.startswith(('"STATE ', '"COVER '))]
        res["error"] = f"rc={rc}\n" + "\n".join(lines[:40])
    return res


def read_events(trace):
    with open(trace) as f:
        return f.read().splitlines()


SEG_STARTS = ('{"ev":"reset"', '{"ev":"load"', '{"ev":"new"')


def segment_start(lines, l):
    """index (1-based) of the reset/load event that starts the segment containing event l"""
    i = min(l, len(lines))
    while i > 1 and not lines[i - 1].startswith(SEG_STARTS):
        i -= 1
    return i


def operator_coverage(module, cfg, meta, modules=("RBArena", "KeyExpTree"), workers=4, timeout=1800):
    """TLC -coverage run: how often the body of each operator of the layer-1 modules was evaluated.
    An operator (a repair case, the growth path, a lazy-expiry loop) that never fired would make the
    invariants that speak about it vacuous."""
    rc, out, wall = _tlc(module + ".tla", cfg, meta, {}, workers, JAVA_OPTS_MODEL, timeout, extra_args=("-coverage", "1"))
    # the last coverage dump is the complete one
    blocks = out.split("The coverage statistics at")
    dump = blocks[-1] if len(blocks) > 1 else out
    res = {}
    for mod in modules:
        src = open(os.path.join(SPEC, mod + ".tla")).read().splitlines()
        defs = [(i + 1, m.group(1)) for i, ln in enumerate(src) for m in [re.match(r"^([A-Z][A-Za-z0-9]*)(\(.*\))? ==", ln)] if m]
        bounds = {name: (ln, (defs[j + 1][0] - 1) if j + 1 < len(defs) else len(src)) for j, (ln, name) in enumerate(defs)}
        per_loc = {}
        for m in re.finditer(r"line (\d+), col (\d+) to line (\d+), col (\d+) of module %s>?: (\d+)(?::(\d+))?" % mod, dump):
            loc = (int(m.group(1)), int(m.group(2)), int(m.group(3)), int(m.group(4)))
            cnt = int(m.group(6) or m.group(5))
            per_loc[loc] = per_loc.get(loc, 0) + cnt
        for name, (a, b) in bounds.items():
            counts = [c for (l1, c1, l2, c2), c in per_loc.items() if a <= l1 <= b]
            if counts:
                res[f"{mod}.{name}"] = max(counts)
            else:
                res[f"{mod}.{name}"] = 0
    return res


def apalache_check(module, init, nxt, inv, wd, timeout=900):
    """Symbolic check (Apalache + Z3) of an invariant in the initial states of a module whose Init
    chooses its variables arbitrarily inside the stated ranges: the invariant is then universally
    quantified over those ranges.  Returns wall time; raises ToolError unless the outcome is NoError."""
    shutil.copy(os.path.join(SPEC, module + ".tla"), os.path.join(wd, module + ".tla"))
    t0 = time.time()
    try:
        p = subprocess.run(["apalache-mc", "check", f"--init={init}", f"--next={nxt}", f"--inv={inv}", "--length=0", module + ".tla"],
                           cwd=wd, stdout=subprocess.PIPE, stderr=subprocess.STDOUT, text=True, timeout=timeout)
    except subprocess.TimeoutExpired:
        raise ToolError(f"apalache timed out on {module} / {inv}")
    finally:
        shutil.rmtree(os.path.join(wd, "_apalache-out"), ignore_errors=True)
    if p.returncode != 0 or "The outcome is: NoError" not in p.stdout:
        tail = "\n".join(p.stdout.splitlines()[-15:])
        raise ToolError(f"apalache: {module} / {inv} is not NoError - the specification itself is broken:\n{tail}")
    return time.time() - t0


def tlc_simulate(module, cfg, meta, num=2000, depth=80, workers=8, seed=1, timeout=1800):
    """Random behaviours of a model that is too large to enumerate (TLC -simulate): every in-action
    Assert and every invariant is evaluated along each behaviour."""
    rc, out, wall = _tlc(module + ".tla", cfg, meta, {}, workers, JAVA_OPTS_MODEL, timeout,
                         extra_args=("-simulate", f"num={num}", "-depth", str(depth), "-seed", str(seed)))
    m = re.search(r"The number of states generated: (\d+)", out)
    t = re.findall(r"(\d+) traces generated", out)
    ok = rc == 0 and m is not None and "Error:" not in out
    res = {"ok": ok, "wall": wall, "module": module, "cfg": cfg, "generated": int(m.group(1)) if m else 0,
           "distinct": 0, "traces": int(t[-1]) if t else 0}
    if not ok:
        lines = [ln for ln in out.splitlines() if ln.strip() and not NOISE.match(ln)]
        res["error"] = "\n".join(lines[:40])
    return res
