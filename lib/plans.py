"""Per-property plans: which TLC model runs decide the property on the specification, which
drivers of the real code produce traces, and which predicate tags of the trace specifications
are direct formalisations of which property."""
import glob
import json
import os
import shutil
import time
from concurrent.futures import ThreadPoolExecutor

from vlib import *  # noqa: F401,F403
import vlib

# --------------------------------------------------------------------------------------------
# tag -> property ids, per kind of collection (see DESIGN.md section 5)
# --------------------------------------------------------------------------------------------
COMMON_TREE = {"WF": ["C02"], "POOL": ["C11"], "GROWTH": ["C11"], "POOLCLR": ["C11", "C12"], "CLEARED": ["C12"],
               "OUTCOME": ["C10"], "TORN": ["C18"], "TORNWF": ["C18"], "TORNPOOL": ["C18"]}
TAGMAP = {
    "keytree": dict(COMMON_TREE, RES_PRED=["C01"], EMPTY=["C01"], RES_GET=["C06"], REFINE=["C01", "C06"],
                    EXPORT=["C07"], EXPCAP=["C19"], CMPLIVE=["C20"]),
    "keylist": {"RES_PRED": ["C13"], "EMPTY": ["C13"], "RES_GET": ["C13"], "REFINE": ["C13"], "EXPORT": ["C07", "C13"],
                "EXPCAP": ["C19"], "CMPLIVE": ["C20"], "OUTCOME": ["C10"], "TORN": ["C18"], "CLEARED": ["C12"]},
    "maptree": dict(COMMON_TREE, RES_GET=["C04"], EMPTY=["C04"], REFINE=["C04"], HANDLE=["C08"], HREAD=["C08"],
                    HSLOT=["C08"], HEFFECT=["C08"], HSTALE=["C17"], STABLE=["C17"]),
    "settree": dict(COMMON_TREE, RES_GET=["C05"], EMPTY=["C05"], REFINE=["C05"], HANDLE=["C08"], HREAD=["C08"],
                    HSLOT=["C08"], HEFFECT=["C08"], HSTALE=["C17"], STABLE=["C17"], STEP=["C09"]),
    "maplist": {t: ["C13"] for t in ("RES_GET", "EMPTY", "REFINE", "HANDLE", "HREAD", "HPOS", "HEFFECT", "STEP", "HSTALE")},
    "setlist": {t: ["C13"] for t in ("RES_GET", "EMPTY", "REFINE", "HANDLE", "HREAD", "HPOS", "HEFFECT", "STEP", "HSTALE")},
    "seg": {"YIELD": ["C03"], "COMPLETE": ["C03"], "COPIES": ["C16"], "PLACES": ["C15"], "MATRIX": ["C15"],
            "LAYOUT": ["C14"], "OUTCOME": ["C10"], "TORN": ["C18"], "CLEARED": ["C12"]},
}
for _k in ("maplist", "setlist"):
    TAGMAP[_k].update({"OUTCOME": ["C10"], "TORN": ["C18"], "CLEARED": ["C12"]})


def kind_of(coll):
    return coll.split("-")[0]


def spec_of(coll):
    k = kind_of(coll)
    if k in ("keytree", "keylist"):
        return "TraceKey"
    if k == "seg":
        return "TraceSeg"
    return "TraceOrd"


# --------------------------------------------------------------------------------------------
class Ctx:
    def __init__(self, pid, tier, seed):
        self.pid, self.tier, self.seed = pid, tier, seed
        self.wd = workdir(pid, fresh=True)
        self.t0 = time.time()
        self.models = []       # results of TLC model runs
        self.traces = []       # results of validated traces
        self.viols = []        # violations attributed to self.pid
        self.notes = []
        self.njobs = 0
        self.names = set()
        self.pool = ThreadPoolExecutor(max_workers=6)

    def quick(self):
        return self.tier != "thorough"

    def path(self, name):
        return os.path.join(self.wd, name)

    # ---- model level ------------------------------------------------------------------------
    def cfg(self, name, consts, invariants, view=True, extra=""):
        p = self.path(name + ".cfg")
        with open(p, "w") as f:
            f.write("CONSTANTS\n")
            for k, v in consts.items():
                f.write(f"  {k} = {v}\n")
            f.write("INIT Init\nNEXT Next\n")
            if view:
                f.write("VIEW View\n")
            if invariants:
                f.write("INVARIANTS " + " ".join(invariants) + "\n")
            f.write("CHECK_DEADLOCK FALSE\n" + extra)
        return p

    def model(self, name, module, consts, invariants, workers=6, want_output=False, timeout=3600):
        cfg = self.cfg(name, consts, invariants)
        r = tlc_model(module, cfg, self.path("meta-" + name), workers=workers, want_output=want_output, timeout=timeout)
        r["name"] = name
        r["consts"] = consts
        if not r["ok"]:
            raise ToolError(f"model {name} ({module}) failed - the specification itself is broken:\n{r.get('error', '')[:3000]}")
        log(f"[model] {name}: {r['distinct']} distinct states, {r['generated']} transitions, {r['wall']:.1f}s")
        self.models.append(r)
        return r

    def cover(self, name, module, consts, invariants):
        """spec -> code: one path per distinct state of the model, printed by TLC"""
        consts = dict(consts, Emit="TRUE")
        r = self.model(name, module, consts, invariants, workers=4, want_output=True)
        paths = []
        for ln in r["out"].splitlines():
            if ln.startswith('"COVER '):
                paths.append(json.loads(ln)[6:])
        del r["out"]
        if len(paths) < r["distinct"]:
            raise ToolError(f"cover {name}: {len(paths)} paths for {r['distinct']} states")
        return paths

    # ---- conformance ----------------------------------------------------------------------
    def trace_job(self, name, coll, driver, params, flags=(), timeout=900):
        """run a driver on the real code and let TLC validate the recorded trace"""
        out = self.path(name + ".ndjson")
        assert name not in self.names, f"job name {name} used twice"
        self.names.add(name)
        h = run_harness(coll, driver, params, out, timeout=timeout)
        v = tlc_trace(spec_of(coll), out, self.path("meta-" + name))
        lines = None
        res = {"name": name, "coll": coll, "driver": driver, "params": params, "events": h["events"], "pairs": h["pairs"],
               "status": h["status"], "accepted": v["accepted"], "nviol": len(v["viols"]), "wall": v["wall"], "trace": out,
               "segments": 0, "mine": []}
        lines = read_events(out)
        res["segments"] = sum(1 for ln in lines if ln.startswith('{"ev":"reset"') or ln.startswith('{"ev":"load"'))
        res["sample"] = sample_of(lines)
        tagmap = TAGMAP[kind_of(coll)]
        first_viol_in_segment = {}
        for x in v["viols"]:
            seg = segment_start(lines, x["l"])
            first_viol_in_segment.setdefault(seg, x["l"])
            ids = set(tagmap.get(x["tag"], []))
            # context: after an injected panic every later defect of the same segment is a C18 matter,
            # after a clear every later wrong result of the same segment is a C12 matter
            if "fault" in flags and any('"out":"unwound"' in ln for ln in lines[seg - 1:x["l"]]):
                ids.add("C18")
            if "twin" in flags and any('"op":"clear"' in ln for ln in lines[seg - 1:x["l"]]) and x["tag"] not in ("WF", "POOL", "GROWTH"):
                ids.add("C12")
            if self.pid in ids:
                res["mine"].append(dict(x, seg=seg))
        # a contract breach with no earlier violation in the same segment is a harness bug
        for b in v["breaches"]:
            seg = segment_start(lines, b["l"])
            if seg not in first_viol_in_segment or first_viol_in_segment[seg] > b["l"]:
                raise ToolError(f"harness left the contract in {name} at event {b['l']}: {b['info']}")
        if not v["accepted"]:
            raise ToolError(f"trace {name} was not consumed completely: {v['other'][:5]}")
        log(f"[trace] {name}: {coll}/{driver} {h['events']} events, {res['segments']} segments, "
            f"{len(v['viols'])} predicate violations ({len(res['mine'])} for {self.pid}), {v['wall']:.1f}s")
        return res

    def submit(self, *a, **kw):
        self.njobs += 1
        return self.pool.submit(self.trace_job, *a, **kw)

    def collect(self, futures):
        for f in futures:
            r = f.result()
            self.traces.append(r)
            for x in r["mine"]:
                self.viols.append((r, x))

    # ---- verdict ------------------------------------------------------------------------------
    def finish(self, level_rule, assumptions, exhaustive=False):
        known = load_known()
        code = 0
        reported = 0
        seen = set()
        for r, x in self.viols:
            key = (r["name"], x["seg"])
            if key in seen:
                continue
            seen.add(key)
            lines = read_events(r["trace"])
            rp = self.path(f"replay-{r['name']}-{x['l']}.ndjson")
            with open(rp, "w") as f:
                f.write(json.dumps({"ev": "header", "property": self.pid, "coll": r["coll"], "driver": r["driver"],
                                    "params": r["params"], "tag": x["tag"], "event": x["l"] - x["seg"] + 2,
                                    "detail": x["info"]}) + "\n")
                f.write("\n".join(lines[x["seg"] - 1:x["l"]]) + "\n")
            kf = match_known(known, self.pid, r, x, lines)
            if kf:
                log(f"KNOWN-FINDING: property={self.pid} {kf}")
                continue
            if reported < 10:
                log(f"VIOLATION property={self.pid} replay={rp}")
                log(f"   {r['coll']} {x['tag']} at event {x['l']}: {json.dumps(x['info'])[:400]}")
            reported += 1
            code = 1
        states = sum(m["distinct"] for m in self.models)
        trans = sum(m["generated"] for m in self.models)
        events = sum(t["events"] for t in self.traces)
        pairs = sum(t["pairs"] for t in self.traces)
        samples = [t["sample"] for t in self.traces[:4] if t.get("sample")]
        if not samples:
            samples = [{"model": m["name"], "constants": m["consts"]} for m in self.models[:3]]
        ev = {
            "property_id": self.pid, "tier": self.tier, "seed": self.seed, "level": "model_checking",
            "coverage": {
                "states": states, "transitions": trans,
                "traces_validated_against_impl": sum(t["segments"] for t in self.traces),
                "evaluations": events, "distinct_nontrivial": pairs,
                "rule": level_rule,
                "samples": samples,
                "exhaustive": exhaustive,
                "models": [{"name": m["name"], "module": m["module"], "constants": m["consts"], "distinct_states": m["distinct"],
                            "transitions": m["generated"], "wall_s": round(m["wall"], 1)} for m in self.models],
                "traces": [{"name": t["name"], "collection": t["coll"], "driver": t["driver"], "params": t["params"],
                            "events": t["events"], "segments": t["segments"], "state_call_pairs": t["pairs"],
                            "outcome": t["status"], "violations_for_this_property": len(t["mine"])} for t in self.traces],
                "checker_cmd": f"./check {self.pid} --tier {self.tier}",
                "notes": self.notes,
            },
            "assumptions": assumptions,
            "wall_s": round(time.time() - self.t0, 1),
            "violations": reported,
        }
        os.makedirs(os.path.join(VERIF, "evidence"), exist_ok=True)
        with open(os.path.join(VERIF, "evidence", self.pid + ".json"), "w") as f:
            json.dump(ev, f, indent=1)
        # keep the scratch directory small: traces are only needed for replay files
        for t in self.traces:
            if not t["mine"]:
                try:
                    os.remove(t["trace"])
                except OSError:
                    pass
        log(f"[{self.pid}] tier={self.tier} models={len(self.models)} ({states} states, {trans} transitions) "
            f"traces={len(self.traces)} ({events} events) violations={reported} wall={ev['wall_s']}s")
        return code


def sample_of(lines):
    """a short excerpt of a validated trace, snapshots elided"""
    out = []
    for ln in lines[:400]:
        if '"ev":"op"' in ln:
            try:
                d = json.loads(ln)
            except ValueError:
                continue
            for k in ("snap", "obs", "cmp", "ev", "ncb"):
                d.pop(k, None)
            out.append(d)
        if len(out) >= 8:
            break
    return out


def load_known():
    p = os.path.join(VERIF, "known_findings.json")
    if not os.path.exists(p):
        return []
    return [k for k in json.load(open(p)).get("findings", []) if k.get("status") == "open"]


def match_known(known, pid, r, x, lines):
    """an open finding suppresses exactly the failing call it names"""
    for k in known:
        if k["property"] != pid or k.get("collection") != kind_of(r["coll"]):
            continue
        ev = json.loads(lines[x["l"] - 1])
        if all(ev.get(f) == v for f, v in k.get("event", {}).items()) and x["tag"] == k.get("tag"):
            return k["what"]
    return None


# --------------------------------------------------------------------------------------------
# shared building blocks
# --------------------------------------------------------------------------------------------
KEY_INV = ["Structure", "Refinement", "ArenaBound", "IsEmptyOK", "ExportOK", "EmitCover"]
ORD_INV = ["Structure", "GrowthOK", "HandlesOK", "LookupOK", "StepsOK", "IsEmptyOK", "EmitCover"]


def keyset(n):
    return "{" + ", ".join(str(i) for i in range(1, n + 1)) + "}"


def key_consts(keys, maxtime, cap=0, faults=False, emit=False):
    return {"Keys": keyset(keys), "MaxTime": maxtime, "Cap0": cap, "Faults": "TRUE" if faults else "FALSE",
            "GetMode": '"get"', "Emit": "TRUE" if emit else "FALSE"}


def ord_consts(keys, cap=0, writes=False, emit=False):
    return {"Keys": keyset(keys), "Cap0": cap, "Writes": "TRUE" if writes else "FALSE", "AfterMode": '"fixed"',
            "Emit": "TRUE" if emit else "FALSE"}


def write_shards(ctx, name, paths, nshards, seed, limit=None):
    """deterministic shuffle (so that a budget-limited run samples the cover uniformly), then split"""
    import random
    rnd = random.Random(seed)
    paths = list(paths)
    rnd.shuffle(paths)
    if limit:
        paths = paths[:limit]
    files = []
    for i in range(nshards):
        p = ctx.path(f"{name}-paths-{i}.txt")
        with open(p, "w") as f:
            f.write("\n".join(paths[i::nshards]) + "\n")
        files.append(p)
    return files


def key_cover_jobs(ctx, colls, keys, maxtime, caps, shards, driver="paths", fanout=1, export=1, limit=None, flags=(),
                   max_events=400000):
    futs = []
    for cap in caps:
        paths = ctx.cover(f"cover-key-k{keys}t{maxtime}c{cap}", "MCKey", key_consts(keys, maxtime, cap), KEY_INV)
        for coll in colls:
            files = write_shards(ctx, f"{coll}-c{cap}", paths, shards, ctx.seed, limit)
            for i, pf in enumerate(files):
                futs.append(ctx.submit(f"{driver}-{coll}-c{cap}-{i}", coll, driver,
                                       {"paths": pf, "keys": keys, "tmax": maxtime, "fanout": fanout, "export": export,
                                        "max_events": max_events}, flags=flags))
    return futs


def ord_cover_jobs(ctx, colls, keys, caps, shards, driver="paths", fanout=1, writes=False, limit=None, flags=(),
                   max_events=400000):
    futs = []
    for cap in caps:
        paths = ctx.cover(f"cover-ord-k{keys}c{cap}", "MCOrd", ord_consts(keys, cap, writes), ORD_INV)
        for coll in colls:
            files = write_shards(ctx, f"{coll}-c{cap}", paths, shards, ctx.seed, limit)
            for i, pf in enumerate(files):
                futs.append(ctx.submit(f"{driver}-{coll}-c{cap}-{i}", coll, driver,
                                       {"paths": pf, "keys": keys, "fanout": fanout, "max_events": max_events}, flags=flags))
    return futs


def random_jobs(ctx, colls, nseeds, params, flags=(), tag=""):
    futs = []
    for coll in colls:
        for s in range(nseeds):
            p = dict(params, seed=ctx.seed * 1000 + s)
            futs.append(ctx.submit(f"random{tag}-{coll}-{s}", coll, "random", p, flags=flags))
    return futs


ASSUME_COMMON = [
    "TLC decides the property on the layer-1 model within the stated constants; the code is tied to the specification by the validated traces only",
    "the harness build (opt-level 2, debug assertions, overflow checks, std unsafe-precondition checks) behaves like the release build except that out-of-contract indexing aborts instead of being silent",
    "snapshots come from the read-only cfg(itree_verif) hooks and are trusted to report the fields they read",
]

# --------------------------------------------------------------------------------------------
# plans
# --------------------------------------------------------------------------------------------


def plan_key_semantics(ctx):
    """C01, C06, C20: queries of the expiring-key tree (and, for C20, list) against KeyExpRef"""
    q = ctx.quick()
    ctx.model("mckey-a", "MCKey", key_consts(3 if q else 4, 3), KEY_INV)
    if not q:
        ctx.model("mckey-b", "MCKey", key_consts(3, 4, cap=1), KEY_INV)
        ctx.model("mckey-c", "MCKey", key_consts(5, 2), KEY_INV)
    colls = ["keytree"] + (["keylist"] if ctx.pid == "C20" else [])
    futs = key_cover_jobs(ctx, colls, 3, 3, [0], 3 if q else 6, export=0, limit=250 if q else None)
    if not q:
        futs += key_cover_jobs(ctx, ["keytree"], 4, 2, [0], 6, export=0, limit=1200)
    futs += random_jobs(ctx, colls, 2 if q else 8, {"keys": 8, "tspan": 5, "steps": 2500 if q else 12000, "seglen": 70})
    futs += random_jobs(ctx, ["keytree"], 1 if q else 4, {"keys": 24, "tspan": 9, "steps": 1500 if q else 8000, "seglen": 200}, tag="-wide")
    ctx.collect(futs)
    return ctx.finish(
        "model: every history over the key universe and time line (fixpoint, unbounded length); conformance: TLC-generated "
        "cover paths replayed on the real collection with every in-contract call of the alphabet fanned out from each covered "
        "state, plus seeded random histories; distinct_nontrivial counts distinct (canonical physical pre-state, call) pairs "
        "executed on the real code",
        ASSUME_COMMON)


PLANS = {"C01": plan_key_semantics, "C06": plan_key_semantics, "C20": plan_key_semantics}


def run_property(pid, tier, seed):
    if pid not in PLANS:
        log(f"no check is built for {pid}")
        return 2
    ctx = Ctx(pid, tier, seed)
    build_harness()
    return PLANS[pid](ctx)


def setup():
    build_harness()
    bad = 0
    for f in sorted(glob.glob(os.path.join(SPEC, "*.tla"))):
        p = subprocess.run(["tla-sany", os.path.basename(f)], cwd=SPEC, stdout=subprocess.PIPE, stderr=subprocess.STDOUT, text=True)
        if p.returncode != 0 or "*** Errors" in p.stdout or "Fatal" in p.stdout:
            log("[setup] SANY rejects", f)
            log(p.stdout[-1500:])
            bad += 1
    log(f"[setup] harness built, {len(glob.glob(os.path.join(SPEC, '*.tla')))} modules parsed, {bad} rejected")
    return 2 if bad else 0


def replay(path):
    """re-execute a replay file on the current code and validate the new trace"""
    lines = open(path).read().splitlines()
    hdr = json.loads(lines[0])
    pid, coll = hdr["property"], hdr["coll"]
    ctx = Ctx("replay-" + pid, "quick", 1)
    ctx.pid = pid
    flags = ("fault", "twin")
    r = ctx.trace_job("replay", coll, "replay", {"file": os.path.abspath(path), "keys": hdr["params"].get("keys", 8)}, flags=flags)
    for x in r["mine"]:
        log(f"VIOLATION property={pid} replay={path}")
        log(f"   {coll} {x['tag']} at event {x['l']}: {json.dumps(x['info'])[:400]}")
        return 1
    log(f"replay of {path}: no violation of {pid} on the current code")
    return 0


def selftest():
    log("selftest not built yet")
    return 2


import subprocess  # noqa: E402
