"""Per-property plans: which TLC model runs decide the property on the specification, which
drivers of the real code produce traces, and which predicate tags of the trace specifications
are direct formalisations of which property."""
import glob
import json
import os
import shutil
import time
from concurrent.futures import ThreadPoolExecutor

from vlib import *  # noqa: F401,F403
import vlib

# --------------------------------------------------------------------------------------------
# tag -> property ids, per kind of collection (see DESIGN.md section 5)
# --------------------------------------------------------------------------------------------
COMMON_TREE = {"WF": ["C02"], "POOL": ["C11"], "GROWTH": ["C11"], "POOLCLR": ["C11"], "CLEARED": ["C12"],
               "OUTCOME": ["C10"], "TORN": ["C18"], "TORNWF": ["C18"], "TORNPOOL": ["C18"]}
TAGMAP = {
    "keytree": dict(COMMON_TREE, RES_PRED=["C01"], EMPTY=["C01"], RES_GET=["C06"], REFINE=["C01", "C06"],
                    EXPORT=["C07"], EXPCAP=["C19"], CMPLIVE=["C20"]),
    "keylist": {"RES_PRED": ["C13"], "EMPTY": ["C13"], "RES_GET": ["C13"], "REFINE": ["C13"], "EXPORT": ["C07", "C13"],
                "EXPCAP": ["C19"], "CMPLIVE": ["C20"], "OUTCOME": ["C10"], "TORN": ["C18"], "CLEARED": ["C12"]},
    "maptree": dict(COMMON_TREE, DROPS=["C04"], RES_GET=["C04"], EMPTY=["C04"], REFINE=["C04"], HANDLE=["C08"], HREAD=["C08"],
                    HSLOT=["C08"], HEFFECT=["C08"], HSTALE=["C17"], STABLE=["C17"]),
    "settree": dict(COMMON_TREE, DROPS=["C05"], RES_GET=["C05"], EMPTY=["C05"], REFINE=["C05"], HANDLE=["C08"], HREAD=["C08"],
                    HSLOT=["C08"], HEFFECT=["C08"], HSTALE=["C17"], STABLE=["C17"], STEP=["C09"]),
    "maplist": {t: ["C13"] for t in ("RES_GET", "EMPTY", "REFINE", "HANDLE", "HREAD", "HPOS", "HEFFECT", "STEP", "HSTALE", "DROPS")},
    "setlist": {t: ["C13"] for t in ("RES_GET", "EMPTY", "REFINE", "HANDLE", "HREAD", "HPOS", "HEFFECT", "STEP", "HSTALE", "DROPS")},
    "seg": {"YIELD": ["C03"], "COMPLETE": ["C03"], "COPIES": ["C16"], "PLACES": ["C15"], "MATRIX": ["C15", "C03"], "KEEP": ["C03"],
            "LAYOUT": ["C14"], "OUTCOME": ["C10"], "TORN": ["C18"], "CLEARED": ["C12"]},
}
for _k in ("maplist", "setlist"):
    TAGMAP[_k].update({"OUTCOME": ["C10"], "TORN": ["C18"], "CLEARED": ["C12"]})


# A call that ends in a panic, abort or time-out (tag OUTCOME, always a C10 matter) also fails to deliver what the
# property that specifies that call promises: per kind of collection, call -> properties
_KEYQ = {"lt": ["C01"], "le": ["C01"], "by": ["C01"], "get": ["C06"], "export": ["C07"], "exportn": ["C07", "C19"],
         "ins": ["C01", "C06"], "bulk": ["C01", "C06"], "clear": ["C01", "C06", "C12", "C11"], "empty": ["C01"]}
_MAPQ = {"drop": ["C04"], "get": ["C04"], "ins": ["C04"], "bulk": ["C04"], "del": ["C04"], "bulkdel": ["C04"], "clear": ["C04", "C12", "C11"], "empty": ["C04"],
         "fil": ["C08"], "filby": ["C08"], "read": ["C08"], "write": ["C08"], "delh": ["C08"]}
_SETQ = dict(_MAPQ, get=["C05"], ins=["C05"], bulk=["C05"], bulkdel=["C05"], clear=["C05", "C12", "C11"], empty=["C05"], after=["C09"], before=["C09"])
_SETQ["del"] = ["C05"]
_SETQ["drop"] = ["C05"]
OUTCOME_OPS = {
    "keytree": _KEYQ,
    "keylist": {k: ["C13"] + (["C07"] if k.startswith("export") else []) for k in _KEYQ},
    "maptree": _MAPQ, "settree": _SETQ,
    "maplist": {k: ["C13"] for k in _SETQ}, "setlist": {k: ["C13"] for k in _SETQ},
    "seg": {"ins": ["C03"], "bulk": ["C03"], "query": ["C03"], "clear": ["C12"], "new": ["C14"], "matrix": ["C15"], "point": ["C14"]},
}


def kind_of(coll):
    return coll.split("-")[0]


def spec_of(coll):
    k = kind_of(coll)
    if k in ("keytree", "keylist"):
        return "TraceKey"
    if k == "seg":
        return "TraceSeg"
    return "TraceOrd"


# --------------------------------------------------------------------------------------------
class Ctx:
    def __init__(self, pid, tier, seed):
        self.pid, self.tier, self.seed = pid, tier, seed
        os.environ["VERIF_TIER_EFFECTIVE"] = "thorough" if tier == "thorough" else "quick"
        self.wd = workdir(pid, fresh=True)
        self.t0 = time.time()
        self.models = []       # results of TLC model runs
        self.traces = []       # results of validated traces
        self.viols = []        # violations attributed to self.pid
        self.notes = []
        self.njobs = 0
        self.names = set()
        self.plain_tags = {}   # collection -> predicate tags violated in panic-free control runs (C18 attribution)
        self.pool = ThreadPoolExecutor(max_workers=10)

    def quick(self):
        return self.tier != "thorough"

    def path(self, name):
        return os.path.join(self.wd, name)

    # ---- model level ------------------------------------------------------------------------
    def cfg(self, name, consts, invariants, view=True, extra="", init="Init", nxt="Next"):
        p = self.path(name + ".cfg")
        with open(p, "w") as f:
            f.write("CONSTANTS\n")
            for k, v in consts.items():
                f.write(f"  {k} = {v}\n")
            f.write(f"INIT {init}\nNEXT {nxt}\n")
            if view:
                f.write("VIEW View\n")
            if invariants:
                f.write("INVARIANTS " + " ".join(invariants) + "\n")
            f.write("CHECK_DEADLOCK FALSE\n" + extra)
        return p

    def model(self, name, module, consts, invariants, workers=6, want_output=False, timeout=3600, view=True, init="Init", nxt="Next"):
        cfg = self.cfg(name, consts, invariants, view=view, init=init, nxt=nxt)
        r = tlc_model(module, cfg, self.path("meta-" + name), workers=workers, want_output=want_output, timeout=timeout)
        r["name"] = name
        r["consts"] = consts
        if not r["ok"]:
            raise ToolError(f"model {name} ({module}) failed - the specification itself is broken:\n{r.get('error', '')[:3000]}")
        log(f"[model] {name}: {r['distinct']} distinct states, {r['generated']} transitions, {r['wall']:.1f}s")
        self.models.append(r)
        return r

    def simulate(self, name, module, consts, invariants, num=1500, depth=80):
        """thorough tier: random behaviours of a universe too large to enumerate"""
        cfg = self.cfg(name, consts, invariants)
        r = tlc_simulate(module, cfg, self.path("meta-" + name), num=num, depth=depth, seed=self.seed)
        r["name"] = name
        r["consts"] = dict(consts, mode=f"simulate num={num}x8 depth={depth}")
        if not r["ok"]:
            raise ToolError(f"simulation {name} ({module}) failed - the specification itself is broken:\n{r.get('error', '')[:3000]}")
        log(f"[model] {name}: simulation, {r['traces']} behaviours, {r['generated']} states checked, {r['wall']:.1f}s")
        self.notes.append(f"{name}: TLC -simulate, {r['traces']} behaviours, {r['generated']} states checked")
        self.models.append(r)
        return r

    def cover(self, name, module, consts, invariants):
        """spec -> code: one path per distinct state of the model, printed by TLC"""
        consts = dict(consts, Emit="TRUE")
        r = self.model(name, module, consts, invariants, workers=4, want_output=True)
        paths = []
        for ln in r["out"].splitlines():
            if ln.startswith('"COVER '):
                paths.append(json.loads(ln)[6:])
        del r["out"]
        if len(paths) < r["distinct"]:
            raise ToolError(f"cover {name}: {len(paths)} paths for {r['distinct']} states")
        return paths

    # ---- conformance ----------------------------------------------------------------------
    def trace_job(self, name, coll, driver, params, flags=(), timeout=None):
        """run a driver on the real code and let TLC validate the recorded trace"""
        out = self.path(name + ".ndjson")
        assert name not in self.names, f"job name {name} used twice"
        self.names.add(name)
        h = run_harness(coll, driver, params, out, timeout=timeout, raw="raw" in flags)
        v = tlc_trace(spec_of(coll), out, self.path("meta-" + name), big="bigheap" in flags)
        lines = None
        res = {"name": name, "coll": coll, "driver": driver, "params": params, "events": h["events"], "pairs": h["pairs"],
               "status": h["status"], "accepted": v["accepted"], "nviol": len(v["viols"]), "wall": v["wall"], "trace": out,
               "segments": 0, "mine": []}
        lines = read_events(out)
        res["segments"] = sum(1 for ln in lines if ln.startswith(vlib.SEG_STARTS))
        res["sample"] = sample_of(lines)
        tagmap = TAGMAP[kind_of(coll)]
        first_viol_in_segment = {}

        def after(x, marker):
            return any(marker in ln for ln in lines[x["seg"] - 1:x["l"]])

        for x in v["viols"]:
            x["seg"] = segment_start(lines, x["l"])
        # defects that also show where no panic was injected / no clear was made are not the panic's
        # (the clear's) doing: they belong to the property whose predicate it is, not to C18 (C12)
        plain_fault = {x["tag"] for x in v["viols"] if not after(x, '"out":"unwound"')}
        # the post-panic predicates have panic-free counterparts: a tree that is already invalid, leaky
        # or wrong before any panic is not torn BY the panic
        if "control" in flags:
            self.plain_tags.setdefault(coll, set()).update(x["tag"] for x in v["viols"])
        plain_fault |= self.plain_tags.get(coll, set())
        plain_fault |= {t for t, base in (("TORNWF", "WF"), ("TORNPOOL", "POOL"), ("TORN", "REFINE"), ("TORN", "KEEP"), ("TORN", "COMPLETE")) if base in plain_fault}
        plain_twin = {x["tag"] for x in v["viols"] if not after(x, '"op":"clear"')}
        for x in v["viols"]:
            seg = x["seg"]
            first_viol_in_segment.setdefault(seg, x["l"])
            ids = set(tagmap.get(x["tag"], []))
            if x["tag"] == "OUTCOME":
                try:
                    evd = json.loads(lines[x["l"] - 1])
                    ids |= set(OUTCOME_OPS.get(kind_of(coll), {}).get(evd.get("op", evd.get("ev")), []))
                except ValueError:
                    pass
            if x["tag"] in ("TORN", "TORNWF", "TORNPOOL") and x["tag"] in plain_fault:
                ids.discard("C18")
            # context: after an injected panic a later defect of the same segment is a C18 matter,
            # after a clear a later wrong result of the same segment is a C12 matter
            if "fault" in flags and x["tag"] not in plain_fault and after(x, '"out":"unwound"'):
                ids.add("C18")
            if "twin" in flags and x["tag"] not in plain_twin and after(x, '"op":"clear"') and x["tag"] not in ("WF", "POOL", "GROWTH", "POOLCLR"):
                ids.add("C12")
            if self.pid in ids:
                res["mine"].append(dict(x))
        # A contract breach is a harness bug unless the code under test has already misbehaved earlier
        # in this run (the harness keeps its own record of what it asked for; once a call has had a
        # wrong effect that record and the reference drift apart, also across `load` segments).
        first_viol = min((x["l"] for x in v["viols"]), default=None)
        for b in v["breaches"]:
            if first_viol is None or first_viol > b["l"]:
                raise ToolError(f"harness left the contract in {name} at event {b['l']}: {b['info']}")
        res["drift"] = len(v["drift"])
        if v["drift"]:
            self.notes.append(f"MODEL-DRIFT {name}: the real arena differs from the layer-1 model's next state at {len(v['drift'])} events, first {v['drift'][0]}")
            log(f"MODEL-DRIFT {name}: {len(v['drift'])} events (diagnostic only), first {v['drift'][0]}")
        if not v["accepted"]:
            raise ToolError(f"trace {name} was not consumed completely: {v['other'][:5]}")
        log(f"[trace] {name}: {coll}/{driver} {h['events']} events, {res['segments']} segments, "
            f"{len(v['viols'])} predicate violations ({len(res['mine'])} for {self.pid}), {v['wall']:.1f}s")
        return res

    def submit(self, *a, **kw):
        self.njobs += 1
        return self.pool.submit(self.trace_job, *a, **kw)

    def collect(self, futures):
        for f in futures:
            r = f.result()
            self.traces.append(r)
            for x in r["mine"]:
                self.viols.append((r, x))

    # ---- verdict ------------------------------------------------------------------------------
    def finish(self, level_rule, assumptions, exhaustive=False):
        known = load_known()
        code = 0
        reported = 0
        seen = set()
        for r, x in self.viols:
            key = (r["name"], x["seg"])
            if key in seen:
                continue
            seen.add(key)
            lines = read_events(r["trace"])
            rp = self.path(f"replay-{r['name']}-{x['l']}.ndjson")
            with open(rp, "w") as f:
                f.write(json.dumps({"ev": "header", "property": self.pid, "coll": r["coll"], "driver": r["driver"],
                                    "params": r["params"], "tag": x["tag"], "event": x["l"] - x["seg"] + 2,
                                    "detail": x["info"]}) + "\n")
                f.write("\n".join(lines[x["seg"] - 1:x["l"]]) + "\n")
            kf = match_known(known, self.pid, r, x, lines)
            if kf:
                log(f"KNOWN-FINDING: property={self.pid} {kf}")
                continue
            if reported < 10:
                log(f"VIOLATION property={self.pid} replay={rp}")
                log(f"   {r['coll']} {x['tag']} at event {x['l']}: {json.dumps(x['info'])[:400]}")
            reported += 1
            code = 1
        states = sum(m["distinct"] for m in self.models)
        trans = sum(m["generated"] for m in self.models)
        events = sum(t["events"] for t in self.traces)
        pairs = sum(t["pairs"] for t in self.traces)
        samples = [t["sample"] for t in self.traces[:4] if t.get("sample")]
        if not samples:
            samples = [{"model": m["name"], "constants": m["consts"]} for m in self.models[:3]]
        ev = {
            "property_id": self.pid, "tier": self.tier, "seed": self.seed,
            "level": "fault_enumeration" if self.pid == "C18" else "model_checking",
            "coverage": {
                "states": states, "transitions": trans,
                "traces_validated_against_impl": sum(t["segments"] for t in self.traces),
                "evaluations": events, "distinct_nontrivial": pairs,
                "rule": level_rule,
                "samples": samples,
                "exhaustive": exhaustive,
                "models": [{"name": m["name"], "module": m["module"], "constants": m["consts"], "distinct_states": m["distinct"],
                            "transitions": m["generated"], "wall_s": round(m["wall"], 1)} for m in self.models],
                "traces": [{"name": t["name"], "collection": t["coll"], "driver": t["driver"], "params": t["params"],
                            "events": t["events"], "segments": t["segments"], "state_call_pairs": t["pairs"],
                            "outcome": t["status"], "violations_for_this_property": len(t["mine"])} for t in self.traces],
                "model_drift_events": sum(t.get("drift", 0) for t in self.traces),
                "checker_cmd": f"./check {self.pid} --tier {self.tier}",
                "notes": self.notes,
            },
            "assumptions": assumptions,
            "wall_s": round(time.time() - self.t0, 1),
            "violations": reported,
        }
        os.makedirs(os.path.join(VERIF, "evidence"), exist_ok=True)
        with open(os.path.join(VERIF, "evidence", self.pid + ".json"), "w") as f:
            json.dump(ev, f, indent=1)
        # keep the scratch directory small: traces are only needed for replay files
        for t in self.traces:
            if not t["mine"]:
                try:
                    os.remove(t["trace"])
                except OSError:
                    pass
        log(f"[{self.pid}] tier={self.tier} models={len(self.models)} ({states} states, {trans} transitions) "
            f"traces={len(self.traces)} ({events} events) violations={reported} wall={ev['wall_s']}s")
        return code


def sample_of(lines):
    """a short excerpt of a validated trace, snapshots elided"""
    out = []
    for ln in lines[:400]:
        if '"ev":"op"' in ln:
            try:
                d = json.loads(ln)
            except ValueError:
                continue
            for k in ("snap", "obs", "cmp", "ev", "ncb"):
                d.pop(k, None)
            out.append(d)
        if len(out) >= 8:
            break
    return out


def load_known():
    p = os.path.join(VERIF, "known_findings.json")
    if not os.path.exists(p):
        return []
    return [k for k in json.load(open(p)).get("findings", []) if k.get("status") == "open"]


def match_known(known, pid, r, x, lines):
    """an open finding suppresses exactly the failing call it names"""
    for k in known:
        if k["property"] != pid or k.get("collection") != kind_of(r["coll"]):
            continue
        ev = json.loads(lines[x["l"] - 1])
        if all(ev.get(f) == v for f, v in k.get("event", {}).items()) and x["tag"] == k.get("tag"):
            return k["what"]
    return None


# --------------------------------------------------------------------------------------------
# shared building blocks
# --------------------------------------------------------------------------------------------
KEY_INV = ["Structure", "Refinement", "ArenaBound", "IsEmptyOK", "ExportOK", "EmitCover"]
ORD_INV = ["Structure", "GrowthOK", "HandlesOK", "LookupOK", "StepsOK", "IsEmptyOK", "EmitCover"]


def keyset(n):
    return "{" + ", ".join(str(i) for i in range(1, n + 1)) + "}"


def key_consts(keys, maxtime, cap=0, faults=False, emit=False):
    return {"Keys": keyset(keys), "MaxTime": maxtime, "Cap0": cap, "Faults": "TRUE" if faults else "FALSE",
            "GetMode": '"get"', "CapMode": '"fixed"', "ExportMode": '"fixed"', "Emit": "TRUE" if emit else "FALSE"}


def ord_consts(keys, cap=0, writes=False, emit=False):
    return {"Keys": keyset(keys), "Cap0": cap, "Writes": "TRUE" if writes else "FALSE", "AfterMode": '"fixed"',
            "Emit": "TRUE" if emit else "FALSE"}


def write_shards(ctx, name, paths, nshards, seed, limit=None):
    """deterministic shuffle (so that a budget-limited run samples the cover uniformly), then split"""
    import random
    rnd = random.Random(seed)
    paths = list(paths)
    rnd.shuffle(paths)
    if limit:
        paths = paths[:limit]
    files = []
    for i in range(nshards):
        p = ctx.path(f"{name}-paths-{i}.txt")
        with open(p, "w") as f:
            f.write("\n".join(paths[i::nshards]) + "\n")
        files.append(p)
    return files


def key_cover_jobs(ctx, colls, keys, maxtime, caps, shards, driver="paths", fanout=1, export=1, limit=None, flags=(),
                   max_events=400000):
    futs = []
    for cap in caps:
        paths = ctx.cover(f"cover-key-k{keys}t{maxtime}c{cap}", "MCKey", key_consts(keys, maxtime, cap), KEY_INV)
        for coll in colls:
            files = write_shards(ctx, f"{coll}-k{keys}t{maxtime}c{cap}", paths, shards, ctx.seed, limit)
            for i, pf in enumerate(files):
                futs.append(ctx.submit(f"{driver}-{coll}-k{keys}t{maxtime}c{cap}-{i}", coll, driver,
                                       {"paths": pf, "keys": keys, "tmax": maxtime, "fanout": fanout, "export": export,
                                        "max_events": max_events}, flags=flags))
    return futs


def ord_cover_jobs(ctx, colls, keys, caps, shards, driver="paths", fanout=1, writes=False, limit=None, flags=(),
                   max_events=400000):
    futs = []
    for cap in caps:
        paths = ctx.cover(f"cover-ord-k{keys}c{cap}{'w' if writes else ''}", "MCOrd", ord_consts(keys, cap, writes), ORD_INV)
        for coll in colls:
            files = write_shards(ctx, f"{coll}-k{keys}c{cap}{'w' if writes else ''}", paths, shards, ctx.seed, limit)
            for i, pf in enumerate(files):
                futs.append(ctx.submit(f"{driver}-{coll}-k{keys}c{cap}{'w' if writes else ''}-{i}", coll, driver,
                                       {"paths": pf, "keys": keys, "fanout": fanout, "max_events": max_events}, flags=flags))
    return futs


def ord_triple_jobs(ctx, colls, flags=()):
    """query - update - update - use from the covered states (smallest first): what a look-up leaves behind
    (a remembered successor, an insertion place) must not survive the updates that invalidate it"""
    q = ctx.quick()
    paths = ctx.cover("cover-ord-k5c0-tri", "MCOrd", ord_consts(5, 0), ORD_INV)
    paths = sorted(paths, key=len)[:(30 if q else len(paths))]
    futs = []
    for coll in (one_per_kind(colls) if q else colls):
        n = 3 if q else 10
        for i in range(n):
            pf = ctx.path(f"tri-{coll}-{i}.txt")
            with open(pf, "w") as f:
                f.write("\n".join(paths[i::n]) + "\n")
            futs.append(ctx.submit(f"triples-{coll}-{i}", coll, "paths", {"paths": pf, "keys": 5, "triples": 1, "max_events": 600000}, flags=flags))
    return futs


def random_jobs(ctx, colls, nseeds, params, flags=(), tag=""):
    futs = []
    for coll in colls:
        for s in range(nseeds):
            p = dict(params, seed=ctx.seed * 1000 + s)
            futs.append(ctx.submit(f"random{tag}-{coll}-{s}", coll, "random", p, flags=flags))
    return futs


# ---- one-step ("inductive") models: every valid red-black tree up to a size as a start state -------
def rb_tree_count(n):
    """number of red-black trees with n nodes (root red or black), counted independently of the
    specification: the cross-check of RBShapes.tla's enumeration"""
    from functools import lru_cache

    @lru_cache(None)
    def cnt(n, h, c):
        hh = h - 1 if c == 0 else h
        if n == 0 or hh < 0:
            return 0
        return sum(sub(nl, hh, c) * sub(n - 1 - nl, hh, c) for nl in range(n))

    @lru_cache(None)
    def sub(n, h, pc):
        if n == 0:
            return 1 if h == 0 else 0
        return cnt(n, h, 0) + (cnt(n, h, 1) if pc == 0 else 0)

    return 1 if n == 0 else sum(cnt(n, h, c) for h in range(0, 8) for c in (0, 1))


IND_ORD_INV = ["IndStructure", "IndQueries", "EmitState"]


def ind_ord_consts(maxn, minn=0, emit=False):
    return {"Keys": keyset(2 * maxn + 1), "Cap0": 0, "Writes": "TRUE", "AfterMode": '"fixed"', "Emit": "TRUE" if emit else "FALSE",
            "MaxN": maxn, "MinN": minn}


def ind_ord_model(ctx, maxn, emit=False):
    """IndOrd: one step of every kind from every valid tree with <= maxn nodes; returns the start states"""
    r = ctx.model(f"indord-n{maxn}", "IndOrd", ind_ord_consts(maxn, emit=emit), IND_ORD_INV, workers=8, want_output=emit,
                  view=False, init="IndInit", nxt="IndNext")
    # 4 arena situations per shape, two of which coincide while 2n <= 8
    want = sum(rb_tree_count(n) * (4 if 2 * n > 8 else 3) for n in range(0, maxn + 1))
    states = []
    if emit:
        states = [json.loads(ln)[6:] for ln in r["out"].splitlines() if ln.startswith('"STATE ')]
        del r["out"]
        if len(states) != want:
            raise ToolError(f"IndOrd n<={maxn}: TLC printed {len(states)} start states, the independent count of red-black trees gives {want}")
    r["consts"] = dict(r["consts"], start_states=want, note="every red-black tree with <= MaxN nodes x arena situations; one step of every kind")
    ctx.notes.append(f"indord-n{maxn}: {want} start states = all red-black trees with <= {maxn} nodes (count cross-checked) x arena situations (full / free slots / free list at capacity)")
    return states


def ord_ind_jobs(ctx, colls, maxn, shards, limit=None, handles=0, max_events=600000):
    """spec -> code: every start state of IndOrd is loaded into the real tree (verif_load hook) and one
    step of every kind is made from it; code -> spec: TLC validates the recorded steps"""
    states = ind_ord_model(ctx, maxn, emit=True)
    futs = []
    for coll in colls:
        files = write_shards(ctx, f"ind-{coll}-n{maxn}", states, shards, ctx.seed, limit)
        for i, pf in enumerate(files):
            futs.append(ctx.submit(f"ind-{coll}-n{maxn}-{i}", coll, "ind", {"states": pf, "handles": handles, "max_events": max_events}))
    return futs


IND_KEY_INV = ["Structure", "Refinement", "IsEmptyOK", "IndExport", "EmitState"]


def ind_key_model(ctx, maxn, emit=False, faults=False):
    """IndKey: one step of every kind from every valid tree with <= maxn nodes x every pattern of expirations"""
    consts = dict(key_consts(2 * maxn + 1, 1, faults=faults, emit=emit), MaxN=maxn, MinN=0)
    r = ctx.model(f"indkey-n{maxn}{'f' if faults else ''}", "IndKey", consts, IND_KEY_INV, workers=8, want_output=emit,
                  view=False, init="IndInit", nxt="IndNext")
    want = sum(rb_tree_count(n) * 2 ** n * 2 for n in range(0, maxn + 1))
    states = []
    if emit:
        states = [json.loads(ln)[6:] for ln in r["out"].splitlines() if ln.startswith('"STATE ')]
        del r["out"]
        if len(states) != want:
            raise ToolError(f"IndKey n<={maxn}: TLC printed {len(states)} start states, the independent count gives {want}")
    r["consts"] = dict(r["consts"], Keys=f"1..{2 * maxn + 1}", start_states=want,
                       note="every red-black tree with <= MaxN nodes x every assignment of expirations {1,2} x {full arena, free slots}; clock 0, calls at times 0 and 1")
    ctx.notes.append(f"indkey-n{maxn}: {want} start states = all red-black trees with <= {maxn} nodes (count cross-checked) x all expiry patterns x 2 arena situations")
    return states


def key_indq_jobs(ctx, minn, maxn, shards, limit=None):
    """start states of more nodes than the full one-step run can afford (emit only: no model step), used for the
    four query forms at the time the short-lived entries have just expired"""
    consts = dict(key_consts(2 * maxn + 1, 1, emit=True), MaxN=maxn, MinN=minn)
    r = ctx.model(f"indkey-states-n{minn}-{maxn}", "IndKey", consts, ["Structure", "EmitState"], workers=4, want_output=True,
                  view=False, init="IndInit", nxt="IndNoStep")
    want = sum(rb_tree_count(n) * 2 ** n * 2 for n in range(minn, maxn + 1))
    states = [json.loads(ln)[6:] for ln in r["out"].splitlines() if ln.startswith('"STATE ')]
    del r["out"]
    if len(states) != want:
        raise ToolError(f"IndKey start states n={minn}..{maxn}: TLC printed {len(states)}, the independent count gives {want}")
    r["consts"] = dict(r["consts"], Keys=f"1..{2 * maxn + 1}", start_states=want, note="enumeration of start states only (no step)")
    files = write_shards(ctx, f"indq-keytree-n{maxn}", states, shards, ctx.seed, limit)
    return [ctx.submit(f"indq-keytree-n{maxn}-{i}", "keytree", "ind", {"states": pf, "queries": 1, "max_events": 900000})
            for i, pf in enumerate(files)]


def key_ind_jobs(ctx, maxn, shards, limit=None, export=0, max_events=600000):
    states = ind_key_model(ctx, maxn, emit=True)
    files = write_shards(ctx, f"ind-keytree-n{maxn}", states, shards, ctx.seed, limit)
    return [ctx.submit(f"ind-keytree-n{maxn}-{i}", "keytree", "ind", {"states": pf, "export": export, "max_events": max_events})
            for i, pf in enumerate(files)]


# ---- threshold sweeps ("scale" drivers): sizes and coincidences far outside the exhaustive universes ----
SCALE_PAIRS_Q = ["15:26", "38:48", "71:80", "130:140"]
SCALE_PAIRS_T = SCALE_PAIRS_Q + ["7:20", "23:60", "31:34", "47:100", "63:66", "127:131", "200:260", "300:0"]


def one_per_kind(colls):
    seen, out = set(), []
    for c in colls:
        if kind_of(c) not in seen:
            seen.add(kind_of(c))
            out.append(c)
    return out


def ord_scale_jobs(ctx, colls, deep=0, faults=0, flags=(), sweeps=True):
    """fill to a threshold (trees: until the arena is exactly full), clear, refill past the old size, delete a third;
    lists take the whole plan in one job (no snapshots, cheap), trees one job per pair"""
    q = ctx.quick()
    pairs = SCALE_PAIRS_Q if q else SCALE_PAIRS_T
    futs = []
    for coll in (one_per_kind(colls) if q else colls):
        if kind_of(coll) in ("maplist", "setlist"):
            # (fault runs sweep the whole key universe after every injected panic: the pairs up to 80 entries)
            lp = pairs + ["300:400"] if not faults else SCALE_PAIRS_Q[:3]
            futs.append(ctx.submit(f"scale-{coll}", coll, "scale", {"plan": ",".join(lp), "seed": ctx.seed, "faults": faults}, flags=flags))
        else:
            # (fault runs log a snapshot and a round of look-ups per injected panic: the small pairs only)
            for i, pr in enumerate(pairs if not faults else pairs[:1] if q else ["15:26", "7:20", "23:30"]):
                futs.append(ctx.submit(f"scale-{coll}-{pr.replace(':', '_')}", coll, "scale",
                                       {"plan": pr, "seed": ctx.seed + i, "faults": faults}, flags=flags))
        # clear sweep: every population 1..N cleared and refilled past the old arena size (bulk calls)
        for a, b in (([(1, 45), (46, 90)] if q else [(1, 50), (51, 100), (101, 150), (151, 200), (201, 260)]) if sweeps else []):
            futs.append(ctx.submit(f"sweep-{coll}-{a}", coll, "scale", {"plan": "", "sweep_lo": a, "sweep_hi": b, "seed": ctx.seed}, flags=flags))
        if deep:
            futs.append(ctx.submit(f"deep-{coll}", coll, "scale", {"plan": "", "deep": deep, "seed": ctx.seed}, flags=flags, timeout=600))
        # thorough tier: 1 150 000 keys (an arena of more than 2^20 slots / 16 MiB), ascending then drained key by
        # key, descending then cleared, and used again
        if deep and (not q or ctx.pid in ("C04", "C05")) and kind_of(coll) in ("maptree", "settree") and coll.endswith("-i32"):
            futs.append(ctx.submit(f"huge-{coll}", coll, "scale", {"plan": "", "deep": 1150000, "seed": ctx.seed}, flags=tuple(flags) + ("bigheap",), timeout=900))
    return futs


def key_scale_jobs(ctx, colls, rounds="ABC", deep=0, flags=(), sweeps=True):
    futs = []
    for coll in colls:
        for r in rounds:
            if r == "D" and not deep:
                continue
            futs.append(ctx.submit(f"scale-{coll}-{r}", coll, "scale", {"rounds": r, "deep": deep, "seed": ctx.seed}, flags=flags, timeout=600))
        # the mass-expiry deep run once more in an unoptimised build (recursion that optimisation hides)
        if "D" in rounds and deep and kind_of(coll) == "keytree":
            futs.append(ctx.submit(f"rawdeep-{coll}", coll, "scale", {"rounds": "D", "deep": 60000, "seed": ctx.seed}, flags=tuple(flags) + ("raw",), timeout=600))
        # clear sweep (round S; `deep` is the first population of a block of 45)
        for a in (((1, 46) if ctx.quick() else (1, 46, 91, 136, 181)) if sweeps else ()):
            futs.append(ctx.submit(f"sweep-{coll}-{a}", coll, "scale", {"rounds": "S", "deep": a, "seed": ctx.seed}, flags=flags))
    return futs


SCALE_RULE = ("; threshold sweeps on the real code, validated by TLC like every other trace: fills to the sizes at which arenas grow and "
              "fast paths switch (trees: until the arena is exactly full), clear, refill past the old size, removals; expiring "
              "collections: mass expiry around long-lived survivors, drain churn, and bulk runs (thousands of insertions observed as "
              "one call, the reference advancing by the bulk action of the layer-0 module)")

ASSUME_COMMON = [
    "TLC decides the property on the layer-1 model within the stated constants; the code is tied to the specification by the validated traces only",
    "the harness build (opt-level 2, debug assertions, overflow checks, std unsafe-precondition checks) behaves like the release build except that out-of-contract indexing aborts instead of being silent",
    "snapshots come from the read-only cfg(itree_verif) hooks and are trusted to report the fields they read",
]

# --------------------------------------------------------------------------------------------
# plans
# --------------------------------------------------------------------------------------------


def plan_key_semantics(ctx):
    """C01, C06, C20: queries of the expiring-key tree (and, for C20, list) against KeyExpRef"""
    q = ctx.quick()
    ctx.model("mckey-a", "MCKey", key_consts(3 if q else 4, 3), KEY_INV)
    if not q:
        ctx.model("mckey-b", "MCKey", key_consts(3, 4, cap=1), KEY_INV)
        ctx.model("mckey-c", "MCKey", key_consts(5, 2), KEY_INV)
        ctx.simulate("mckey-sim", "MCKey", key_consts(7, 6), KEY_INV, num=1200)
    colls = ["keytree"] + (["keylist"] if ctx.pid == "C20" else [])
    futs = key_cover_jobs(ctx, colls, 3, 3, [0], 4 if q else 6, export=0, limit=450 if q else None)
    if not q:
        futs += key_cover_jobs(ctx, ["keytree"], 4, 2, [0], 6, export=0, limit=1200)
    futs += random_jobs(ctx, colls, 2 if q else 8, {"keys": 8, "tspan": 5, "steps": 2500 if q else 12000, "seglen": 70})
    futs += random_jobs(ctx, ["keytree"], 1 if q else 4, {"keys": 24, "tspan": 9, "steps": 1500 if q else 8000, "seglen": 200}, tag="-wide")
    # many entries, slow expiry, no clears: when the caller's clock jumps, one search removes a long chain of roots
    futs += random_jobs(ctx, ["keytree"], 1 if q else 3, {"keys": 60, "tspan": 40, "steps": 1500 if q else 8000, "seglen": 500, "clears": 0}, tag="-chain")
    # one step of every kind from every valid tree x every pattern of expired / live nodes
    futs += key_ind_jobs(ctx, 4 if q else 6, 2 if q else 6, limit=120 if q else 3000)
    # the query forms from start states of six and seven (thorough: also eight) nodes x every expiry pattern
    futs += key_indq_jobs(ctx, 6, 7, 4 if q else 10, limit=900 if q else None)
    if not q:
        futs += key_indq_jobs(ctx, 8, 8, 6, limit=4000)
    futs += key_scale_jobs(ctx, colls, "ABCDG", deep=20000 if q else 60000)
    ctx.collect(futs)
    return ctx.finish(
        "model: every history over the key universe and time line (fixpoint, unbounded length); conformance: TLC-generated "
        "cover paths replayed on the real collection with every in-contract call of the alphabet fanned out from each covered "
        "state, plus seeded random histories; distinct_nontrivial counts distinct (canonical physical pre-state, call) pairs "
        "executed on the real code" + IND_RULE + SCALE_RULE,
        ASSUME_COMMON + [IND_ASSUME])



ORD_TREES_MAP = ["maptree-i32", "maptree-str"]
ORD_TREES_SET = ["settree-i32", "settree-str", "settree-plain"]
ORD_LISTS = ["maplist-i32", "maplist-str", "setlist-i32", "setlist-str"]

IND_RULE = ("; one-step model IndOrd / IndKey: every red-black tree up to MaxN nodes (all shapes, root red or black, reachable or not; "
            "the count is cross-checked) in several arena situations is a start state, one step of every kind is taken from it and the "
            "invariants are checked on the successor; every start state is also loaded into the real tree (verif_load hook), the same "
            "steps are made there and validated by TLC (in the quick tier a seeded sample of the start states)")
IND_ASSUME = "one-step runs start from states constructed through the cfg(itree_verif) verif_load hook, which writes the arena fields verbatim"
COVER_RULE = ("model: every history over the key universe (fixpoint over canonical arena states, unbounded length); conformance: "
              "TLC-generated cover paths replayed on the real collection with every in-contract call of the alphabet fanned out "
              "from each covered state, plus seeded random histories; distinct_nontrivial counts distinct (canonical physical "
              "pre-state, call) pairs executed on the real code")


def plan_ord(ctx, colls):
    """C04, C05, C08, C09, C17 on the map / set trees"""
    q = ctx.quick()
    ctx.model("mcord-a", "MCOrd", ord_consts(6 if q else 8), ORD_INV)
    ctx.model("mcord-w", "MCOrd", ord_consts(4 if q else 5, writes=True), ORD_INV)
    if not q:
        ctx.model("mcord-c1", "MCOrd", ord_consts(7, cap=1), ORD_INV)
        ctx.model("mcord-c9", "MCOrd", ord_consts(7, cap=9), ORD_INV)
    futs = ord_cover_jobs(ctx, colls, 5 if q else 6, [0], 2 if q else 6, limit=None)      # quick: the whole 5-key cover (227 states)
    if not q:
        futs += ord_cover_jobs(ctx, colls, 4, [1, 9], 2, writes=True)
    futs += random_jobs(ctx, colls, 2 if q else 8, {"keys": 10, "steps": 2500 if q else 12000, "seglen": 90})
    futs += random_jobs(ctx, colls, 1 if q else 3, {"keys": 40, "steps": 1200 if q else 6000, "seglen": 400}, tag="-wide")
    futs += ord_triple_jobs(ctx, colls)
    # (quick tier: the deep run belongs to the properties that speak about look-ups, removals and steps)
    futs += ord_scale_jobs(ctx, colls, deep=420000 if (not q or ctx.pid in ("C04", "C05", "C09")) else 0)
    # instance-counting payloads: a value dropped twice, or never, by an entry move, a removal, clear or the drop
    # of the collection shows as a non-zero residue when the instance is dropped (C04 / C05: "never duplicated or lost")
    for cc in sorted({kind_of(c) + "-cnt" for c in colls}):
        futs += random_jobs(ctx, [cc], 1 if q else 4, {"keys": 14, "steps": 1500 if q else 8000, "seglen": 80}, tag="-cnt")
        futs.append(ctx.submit(f"scale-{cc}", cc, "scale", {"plan": "15:26" if q else "15:26,38:48,71:80", "seed": ctx.seed}))
    # one step of every kind from every valid red-black tree (not only the reachable ones of a small universe)
    futs += ord_ind_jobs(ctx, colls, 8 if q else 11, 2 if q else 4, limit=(200 // len(colls)) if q else 4000,
                         handles=1 if ctx.pid in ("C17", "C08") else 0)
    ctx.collect(futs)
    return ctx.finish(COVER_RULE + IND_RULE + SCALE_RULE, ASSUME_COMMON + [IND_ASSUME])


def plan_c04(ctx):
    return plan_ord(ctx, ORD_TREES_MAP)


def plan_c05(ctx):
    return plan_ord(ctx, ORD_TREES_SET)


def plan_c08(ctx):
    return plan_ord(ctx, ORD_TREES_MAP + ORD_TREES_SET)


def plan_c09(ctx):
    return plan_ord(ctx, ORD_TREES_SET)


def plan_c17(ctx):
    return plan_ord(ctx, ["maptree-i32", "settree-str"] if ctx.quick() else ORD_TREES_MAP + ORD_TREES_SET)


def plan_structure(ctx):
    """C02, C11: every logged state of all three trees"""
    q = ctx.quick()
    ctx.model("mcord-a", "MCOrd", ord_consts(6 if q else 9), ORD_INV)
    ctx.model("mckey-a", "MCKey", key_consts(3 if q else 4, 3), KEY_INV)
    if not q:
        for cap in (1, 8, 9, 32):
            ctx.model(f"mcord-c{cap}", "MCOrd", ord_consts(7, cap=cap), ORD_INV)
        ctx.model("mckey-c9", "MCKey", key_consts(3, 3, cap=9), KEY_INV)
        ctx.model("mckey-b", "MCKey", key_consts(5, 2), KEY_INV)
        ctx.simulate("mcord-sim", "MCOrd", ord_consts(16, cap=1, writes=True), ORD_INV, num=1200, depth=120)
        ctx.simulate("mckey-sim", "MCKey", key_consts(7, 6), KEY_INV, num=800)
    if ctx.pid == "C11":
        # the storage bound as an inductive invariant of the integer abstraction of the pool, for arenas and
        # histories of every size (Apalache / Z3); MCOrd / MCKey assert that every transition of the
        # concrete model projects onto these abstract steps
        w1 = apalache_check("PoolSym", "Init", "Next", "IndInv", ctx.wd)
        shutil.copy(os.path.join(SPEC, "PoolSym.tla"), os.path.join(ctx.wd, "PoolSym.tla"))
        p = subprocess.run(["apalache-mc", "check", "--init=IndInit", "--next=Next", "--inv=IndInv", "--length=1", "PoolSym.tla"],
                           cwd=ctx.wd, stdout=subprocess.PIPE, stderr=subprocess.STDOUT, text=True, timeout=900)
        shutil.rmtree(os.path.join(ctx.wd, "_apalache-out"), ignore_errors=True)
        if p.returncode != 0 or "The outcome is: NoError" not in p.stdout:
            raise ToolError("apalache: the inductive step of PoolSym!IndInv failed - the specification itself is broken:\n" + "\n".join(p.stdout.splitlines()[-12:]))
        ctx.notes.append({"inductive_invariant": "PoolSym!IndInv (arena slots <= 3 * (peak + 1) + max(hint, 8), unbounded): base case and inductive step "
                          "discharged by apalache-mc (outcome NoError)", "wall_s": round(w1, 1)})
        log("[apalache] PoolSym: IndInv holds initially and is inductive")
    futs = ord_cover_jobs(ctx, ["maptree-i32", "settree-i32"], 5 if q else 6, [0] if q else [0, 9], 2 if q else 4,
                          limit=160 if q else None)
    futs += key_cover_jobs(ctx, ["keytree"], 3, 3, [0] if q else [0, 9], 2 if q else 4, export=0, limit=200 if q else None)
    futs += ord_ind_jobs(ctx, ["maptree-i32", "settree-str"] if q else ["maptree-i32", "maptree-str", "settree-i32", "settree-str"],
                         8 if q else 11, 2 if q else 4, limit=100 if q else 4000)
    futs += key_ind_jobs(ctx, 4 if q else 6, 1 if q else 4, limit=60 if q else 2000)
    futs += ord_scale_jobs(ctx, ["maptree-i32", "settree-str"] if q else ["maptree-i32", "maptree-str", "settree-i32", "settree-str"],
                           deep=420000 if (not q or ctx.pid == "C11") else 0)
    futs += key_scale_jobs(ctx, ["keytree"])
    trees = ["maptree-i32", "settree-str", "keytree"] if q else ["maptree-i32", "maptree-str", "settree-i32", "settree-str", "keytree"]
    for coll in trees:
        base = {"keys": 12, "steps": 2000 if q else 10000, "seglen": 150}
        if coll == "keytree":
            base["tspan"] = 6
        futs += random_jobs(ctx, [coll], 1 if q else 4, base)
        wide = {"keys": 64, "steps": 1200 if q else 8000, "seglen": 600 if q else 4000}
        if coll == "keytree":
            wide["tspan"] = 40
        futs += random_jobs(ctx, [coll], 1 if q else 3, wide, tag="-churn")
        # clear churn: few keys, one long history with very many clears (a slot or a bit of capacity
        # lost per clear shows as growth that the peak population cannot explain)
        cc = {"keys": 6, "steps": 1800 if q else 9000, "seglen": 100000, "clearden": 1}
        if coll == "keytree":
            cc["tspan"] = 4
        futs += random_jobs(ctx, [coll], 1 if q else 2, cc, tag="-clearchurn")
        # a large capacity hint (the arena starts with thousands of slots; snapshots are sampled)
        hint = {"keys": 30, "steps": 1200 if q else 5000, "seglen": 400, "cap": 3000, "snapevery": 60}
        if coll == "keytree":
            hint["tspan"] = 8
        futs += random_jobs(ctx, [coll], 1, hint, tag="-hint")
        # large trees, sampled: the snapshot is shipped with every n-th call only
        big = {"keys": 400 if q else 1500, "steps": 2500 if q else 10000, "seglen": 100000, "clears": 0, "snapevery": 125 if q else 500}
        if coll == "keytree":
            big["tspan"] = 200 if q else 800
        futs += random_jobs(ctx, [coll], 1 if q else 2, big, tag="-big")
    if not q:
        # anti-vacuity at model level: how often each repair case / growth path / expiry loop fired
        want = ("FixInsert", "GetUncle", "RotateLeft", "RotateRight", "HandleRedSibling", "HandleBlackSiblingRedChild", "FixDelete",
                "DeleteIndex", "LeftMin", "ClearRound", "Reserve", "ClimbAfter", "ClimbBefore", "XRoot", "XLeft", "XRight", "XSearch",
                "XInsDescend", "ExportLoop")
        cov = operator_coverage("MCOrd", ctx.cfg("cov-ord", ord_consts(7), ORD_INV), ctx.path("meta-cov-ord"), modules=("RBArena",))
        cov.update({"key:" + k: v for k, v in operator_coverage("MCKey", ctx.cfg("cov-key", key_consts(3, 3), KEY_INV), ctx.path("meta-cov-key")).items()})
        ctx.notes.append({"operator_evaluations": {k: v for k, v in cov.items() if k.split(".")[-1] in want}})
    ctx.collect(futs)
    return ctx.finish(COVER_RULE + IND_RULE + SCALE_RULE + "; structure predicates (WellFormed / PoolOK / growth bound) are evaluated by TLC on the "
                      "snapshot of every logged state", ASSUME_COMMON + [IND_ASSUME])


def plan_lists(ctx):
    """C13: the three sorted-list twins against the same layer-0 semantics"""
    q = ctx.quick()
    ctx.model("mcord-a", "MCOrd", ord_consts(5 if q else 7), ORD_INV)
    ctx.model("mckey-a", "MCKey", key_consts(3, 3), KEY_INV)
    ctx.model("mclist", "MCKeyList", {"Keys": keyset(3), "MaxTime": 3 if q else 4, "Faults": "FALSE"}, ["MinExpOK", "Refinement"])
    ctx.model("mcordlist", "MCOrdList", {"Keys": keyset(6 if q else 8), "StepMode": '"fixed"'}, ["Inv"], view=False)
    futs = ord_cover_jobs(ctx, ORD_LISTS if not q else ["maplist-i32", "setlist-str"], 4, [0], 1 if q else 2, limit=None)  # 85 states
    futs += key_cover_jobs(ctx, ["keylist"], 3, 3 if not q else 2, [0], 2 if q else 4, limit=100 if q else 300)
    futs += random_jobs(ctx, ORD_LISTS, 1 if q else 6, {"keys": 10, "steps": 2000 if q else 10000, "seglen": 90})
    futs += random_jobs(ctx, ["keylist"], 2 if q else 8, {"keys": 8, "tspan": 5, "steps": 2500 if q else 12000, "seglen": 70})
    futs += ord_scale_jobs(ctx, ORD_LISTS, deep=200000)
    futs += ord_triple_jobs(ctx, ORD_LISTS)
    futs += random_jobs(ctx, ["maplist-cnt", "setlist-cnt"], 1 if q else 4, {"keys": 14, "steps": 1500 if q else 8000, "seglen": 80}, tag="-cnt")
    futs += key_scale_jobs(ctx, ["keylist"], "ABCDG", deep=20000 if q else 60000)
    ctx.collect(futs)
    return ctx.finish(COVER_RULE + "; the lists ship no snapshot: results are checked call by call and the full observable "
                      "contents (get_value of every key of the universe, is_empty) periodically", ASSUME_COMMON)


def plan_export(ctx):
    """C07 (and the contents part of C19)"""
    q = ctx.quick()
    ctx.model("mckey-a", "MCKey", key_consts(3 if q else 4, 3), KEY_INV)
    if not q:
        ctx.model("mckey-b", "MCKey", key_consts(5, 2), KEY_INV)
    futs = key_cover_jobs(ctx, ["keytree", "keylist"], 3, 3, [0], 2 if q else 4, fanout=1, export=2, limit=260 if q else None)
    futs += random_jobs(ctx, ["keytree", "keylist"], 2 if q else 8, {"keys": 8, "tspan": 5, "steps": 2500 if q else 12000, "seglen": 25})
    futs += random_jobs(ctx, ["keytree", "keylist"], 1 if q else 4, {"keys": 40, "tspan": 12, "steps": 2000 if q else 10000, "seglen": 120}, tag="-wide")
    # export from every valid tree x every pattern of expired / live nodes, at both times
    futs += key_ind_jobs(ctx, 4 if q else 6, 2 if q else 6, limit=120 if q else 3000, export=1)
    futs += key_scale_jobs(ctx, ["keytree", "keylist"], "ABCDG", deep=20000 if q else 60000)
    if ctx.pid == "C19":
        # the sorted list inserts in O(n) per call (descending order: O(n^2) in total), so its sizes stay
        # moderate; the quadratic cost is the list's nature, not something C19 or C10 speak about
        futs += [ctx.submit(f"sizes-{c}", c, "sizes", {"max": (100000 if q else 2000000) if c == "keytree" else 20000}) for c in ("keytree", "keylist")]
    ctx.collect(futs)
    return ctx.finish("model: the export (explicit-stack traversal) from every reachable state at every admissible time; conformance: "
                      "every covered state of the real tree and list is exported at every time now..MaxTime (the path is replayed for "
                      "each export because the call consumes the collection), random histories end every segment with an export"
                      + ("; sizes driver: 0..64 entries in ascending / descending / shuffled order, then powers of ten, capacity logged"
                         if ctx.pid == "C19" else ""), ASSUME_COMMON)


def plan_faults(ctx):
    """C18: callback panics"""
    q = ctx.quick()
    ctx.model("mckey-f", "MCKey", key_consts(3, 2 if q else 3, faults=True), KEY_INV)
    ctx.model("mcord-a", "MCOrd", ord_consts(5 if q else 7), ORD_INV)
    ctx.model("mclist-f", "MCKeyList", {"Keys": keyset(3), "MaxTime": 3 if q else 4, "Faults": "TRUE"}, ["MinExpOK", "Refinement"])
    # every callback point of one call from every valid tree x every pattern of expired / live nodes:
    # on the model (PanicSafe at every entry of the callback log), and on the real trees from a sample of the
    # start states (every callback index of every call at the time the short-lived entries have just expired)
    kstates = ind_key_model(ctx, 4 if q else 5, emit=True, faults=True)
    ostates = ind_ord_model(ctx, 6 if q else 8, emit=True)
    indf = []
    for i, pf in enumerate(write_shards(ctx, "indf-keytree", kstates, 2 if q else 6, ctx.seed, 30 if q else 900)):
        indf.append(ctx.submit(f"indfaults-keytree-{i}", "keytree", "ind", {"states": pf, "faults": 1, "max_events": 400000}, flags=("fault",)))
    for coll in ("maptree-i32", "settree-str"):
        for i, pf in enumerate(write_shards(ctx, f"indf-{coll}", ostates, 1 if q else 4, ctx.seed, 14 if q else 400)):
            indf.append(ctx.submit(f"indfaults-{coll}-{i}", coll, "ind", {"states": pf, "faults": 1, "max_events": 400000}, flags=("fault",)))
    seg_models(ctx, faults=True)
    futs = key_cover_jobs(ctx, ["keytree", "keylist"], 3, 2, [0], 2 if q else 4, driver="faults", limit=24 if q else 200,
                          flags=("fault",), max_events=60000 if q else 600000)
    ords = ["maptree-i32", "settree-str", "maplist-str", "setlist-i32"] if q else ORD_TREES_MAP + ORD_TREES_SET + ORD_LISTS
    futs += ord_cover_jobs(ctx, ords, 4, [0], 1 if q else 2, driver="faults", limit=12 if q else 80, flags=("fault",),
                           max_events=40000 if q else 400000)
    # panic-free control runs of the same random drivers come first: a predicate that is violated there
    # is violated without any panic, so the same predicate failing after an injected panic is not C18's
    ctl = random_jobs(ctx, ["keytree", "keylist"], 1 if q else 2, {"keys": 8, "tspan": 5, "steps": 2500 if q else 6000, "seglen": 70, "inject": 0},
                      flags=("control",), tag="-control")
    ctl += random_jobs(ctx, ords, 1 if q else 2, {"keys": 10, "steps": 2000 if q else 5000, "seglen": 90, "inject": 0}, flags=("control",), tag="-control")
    ctl += seg_random_jobs(ctx, 1 if q else 2, 600 if q else 3000, inject=0, flags=("control",), tag="-control")
    ctl += seg_dense_jobs(ctx, inject=0, flags=("control",), tag="-control")
    ctx.collect(ctl)
    futs += random_jobs(ctx, ["keytree", "keylist"], 1 if q else 4, {"keys": 8, "tspan": 5, "steps": 2500 if q else 10000, "seglen": 70, "inject": 1},
                        flags=("fault",), tag="-inject")
    futs += random_jobs(ctx, ords, 1 if q else 3, {"keys": 10, "steps": 2000 if q else 8000, "seglen": 90, "inject": 1}, flags=("fault",), tag="-inject")
    futs += seg_random_jobs(ctx, 1 if q else 4, 600 if q else 5000, inject=1, flags=("fault",), tag="-inject")
    futs += seg_dense_jobs(ctx, inject=1, flags=("fault",), tag="-inject")
    # larger collections: every callback index of the insertions made at the sizes where buffers are exactly full
    # (ord scale driver), and of calls that have to purge expired entries from a dozen (key scale driver, round F)
    futs += ord_scale_jobs(ctx, ords, faults=1, flags=("fault",), sweeps=False)
    futs += key_scale_jobs(ctx, ["keytree", "keylist"], "F", flags=("fault",), sweeps=False)
    futs += indf
    ctx.collect(futs)
    return ctx.finish("fault enumeration validated by TLC: for every covered state, every call of the alphabet and every callback "
                      "index j the call makes, the j-th user callback (Ord::cmp, comparator closure, key accessor, expiration "
                      "accessor) panics; the snapshot after catch_unwind must be a valid tree whose contents are those before or "
                      "after the call, and the collection is observed and mutated again afterwards (the same follow-up is made after a "
                      "control run without a panic, and the random drivers are also run once without injection, so that defects "
                      "which exist without any panic are not attributed to it); model: the panic successors of every callback "
                      "point of the key tree (MCKey), of the segment iterator (MCSeg) and of the key list's retain sweep (MCKeyList)",
                      ASSUME_COMMON)



# ---- segment tree ----------------------------------------------------------------------------
SEG_DOMAINS = [("seg-i32", 0, 31), ("seg-i32", -7, 9), ("seg-i32", 0, 128), ("seg-i32", -10240, 15360),
               ("seg-i32", 0, 1048573), ("seg-i32", -2147483648, 2147483647), ("seg-u32", 5, 4000000000),
               ("seg-i64", -4611686018427387904, 4611686018427387902), ("seg-i64", -1000, 99)]


def seg_random_jobs(ctx, nseeds, steps, inject=0, flags=(), tag=""):
    futs = []
    for di, (coll, lo, hi) in enumerate(SEG_DOMAINS):
        for sd in range(nseeds):
            futs.append(ctx.submit(f"random{tag}-{coll}-d{di}-{sd}", coll, "random",
                                   {"lo": lo, "hi": hi, "seed": ctx.seed * 1000 + sd, "steps": steps, "seglen": 60, "inject": inject}, flags=flags))
    return futs


DENSE_DOMAINS = [("seg-i32", -10240, 15360), ("seg-i32", 0, 31), ("seg-i32", -100, 699), ("seg-i64", -4611686018427387904, 4611686018427387902)]


def seg_dense_jobs(ctx, inject=0, flags=(), tag=""):
    """long bucket lists (up to 70 copies, capacity coincidences, e == t), a root list of whole-domain values,
    fault enumeration inside a long list, a bulk run of 2 500 values in one list"""
    doms = DENSE_DOMAINS[:3] if ctx.quick() else DENSE_DOMAINS
    # (the first domain gets a list of 70 000 copies - more than a 16-bit cursor can address - whose yields are logged in summary)
    return [ctx.submit(f"dense{tag}-{coll}-d{di}", coll, "dense", {"lo": lo, "hi": hi, "seed": ctx.seed + di, "inject": inject, "bulk": 70000 if di == 0 else 2500}, flags=flags)
            for di, (coll, lo, hi) in enumerate(doms)]


def seg_matrix_jobs(ctx, shards):
    step = (528 + shards - 1) // shards
    return [ctx.submit(f"matrix-{i}", "seg-i32", "matrix", {"from": i * step, "to": min(528, (i + 1) * step)}) for i in range(shards)]


def layout_domains(thorough):
    small = []
    for lo in ((-70, 0, 5) if thorough else (-70, 0)):
        for ln in (list(range(1, 41)) + [63, 64, 65, 100, 127, 128, 129, 255, 256, 257, 300]):
            small.append((lo, lo + ln - 1))
    i32 = list(small)
    for k in range(9, 32):
        for ln in (2 ** k - 1, 2 ** k, 2 ** k + 1):
            for lo in ((-2 ** 31, -1) if thorough else (-2 ** 31,)):
                if lo + ln - 1 <= 2 ** 31 - 1:
                    i32.append((lo, lo + ln - 1))
    i32.append((-2 ** 31, 2 ** 31 - 1))
    u32 = [(0, ln - 1) for ln in (16, 17, 33, 2 ** 20 + 1, 2 ** 31, 2 ** 31 + 1, 2 ** 32 - 1, 2 ** 32)] + [(4294967000, 4294967295)]
    i64 = [(-2 ** 62, 2 ** 62 - 2), (-2 ** 63, -2), (0, 2 ** 63 - 2), (2 ** 40, 2 ** 40 + 16), (-2 ** 63, -2 ** 63 + 15)]
    for k in (33, 40, 47, 55, 62):
        for ln in (2 ** k - 1, 2 ** k, 2 ** k + 1):
            i64.append((-2 ** 61, -2 ** 61 + ln - 1))
    return {"seg-i32": i32, "seg-u32": u32, "seg-i64": i64}


def layout_jobs(ctx, thorough):
    futs = []
    for coll, doms in layout_domains(thorough).items():
        n = 4 if coll == "seg-i32" else 1
        for i in range(n):
            part = doms[i::n]
            futs.append(ctx.submit(f"layout-{coll}-{i}", coll, "layout", {"domains": ",".join(f"{a}:{b}" for a, b in part)}))
    return futs


def seg_models(ctx, dynamic=True, heap=False, layout=False, faults=False):
    q = ctx.quick()
    fl = "TRUE" if faults else "FALSE"
    if dynamic:
        ctx.model("mcseg-h2", "MCSeg", {"H": 2, "MaxVals": 2 if q else 3, "MaxTime": 2, "Faults": fl}, ["Inv"], view=False, workers=8)
        if not q:
            ctx.model("mcseg-h3", "MCSeg", {"H": 3, "MaxVals": 2, "MaxTime": 2, "Faults": fl}, ["Inv"], view=False, workers=8)
    if heap:
        ctx.model("mcheap-h5", "MCHeap", {"H": 5}, ["Inv"], view=False, workers=8)
        if not q:
            ctx.model("mcheap-h4", "MCHeap", {"H": 4}, ["Inv"], view=False, workers=1)
    if layout:
        ctx.model("mclayout", "MCLayout", {"MaxLen": 300 if q else 1200, "BigExps": "{9, 10, 12, 16, 20, 24, 29, 30}"}, ["Inv"], view=False, workers=1)


SEG_RULE = ("dense runs: one bucket list grown to 70 copies with e == t coincidences at the lengths where its Vec is exactly full, a root list of "
            "17-19 whole-domain values in front of lists holding expired copies, a bulk run of 2 500 values in one list; model: every history of inserts / iterator creation / next / drop / clear within the constants (heap height H, number of "
            "values, times); conformance on the real 32-bucket tree: seeded random histories over nine domains (17 points to 2^63-1 "
            "points, negative and unsigned) with bucket-edge coordinates, e == t, partial consumption and clears, validated by TLC "
            "against SegRef with buckets from SegLayout and places from SegHeap")


def plan_c03(ctx):
    q = ctx.quick()
    seg_models(ctx)
    futs = seg_random_jobs(ctx, 1 if q else 6, 1500 if q else 8000) + seg_matrix_jobs(ctx, 2 if q else 4) + seg_dense_jobs(ctx)
    ctx.collect(futs)
    return ctx.finish(SEG_RULE + "; plus the complete 528 x 528 (insert range, query range) matrix on the domain [0,31]", ASSUME_COMMON, )


def plan_c16(ctx):
    q = ctx.quick()
    seg_models(ctx)
    ctx.collect(seg_random_jobs(ctx, 1 if q else 6, 2500 if q else 10000) + seg_dense_jobs(ctx))
    return ctx.finish(SEG_RULE + "; after every completely consumed whole-domain query the stored copies (hook) must be exactly the "
                      "copies of the values with expiration >= t", ASSUME_COMMON)


def plan_c15(ctx):
    q = ctx.quick()
    seg_models(ctx, dynamic=False, heap=True)
    futs = seg_matrix_jobs(ctx, 2 if q else 4) + seg_random_jobs(ctx, 1, 800 if q else 5000)
    ctx.collect(futs)
    return ctx.finish("model: complete static check for H = 5 - transcribed mask loops = declarative definitions for all 528 ranges, exact "
                      "tiling, <= 8 places, 528 x 528 meet-iff-overlap; conformance: on a real tree over [0,31], for each of the 528 ranges "
                      "the places that hold a copy after one insert (hook) and the 528-entry row of queries that yield it", ASSUME_COMMON,
                      exhaustive=True)


def plan_c14(ctx):
    q = ctx.quick()
    seg_models(ctx, dynamic=False, heap=not q, layout=True)
    # the arithmetic, for every length up to 2^62 and every offset: symbolically (Apalache / Z3)
    w1 = apalache_check("SegLayoutSym", "Init", "Next", "Inv", ctx.wd)
    w2 = apalache_check("SegLayoutSym", "InitSmall", "NextSmall", "InvSmall", ctx.wd)
    ctx.notes.append({"symbolic_check": "apalache-mc check --length=0 SegLayoutSym.tla: Inv (all len in 17..2^62, all offsets o1 <= o2 < len, all shifts j) and "
                      "InvSmall (all len in 2..16) have outcome NoError", "wall_s": round(w1 + w2, 1)})
    log(f"[apalache] SegLayoutSym: Inv and InvSmall NoError ({w1 + w2:.1f}s)")
    futs = layout_jobs(ctx, not q) + seg_random_jobs(ctx, 1, 500 if q else 3000)
    ctx.collect(futs)
    return ctx.finish("model: layout arithmetic over all lengths 1..MaxLen and 2^k-1, 2^k, 2^k+1 up to 2^30, with the scaling lemma; "
                      "conformance: SegExpTree::new over a grid of i32 / u32 / i64 domains (lengths 1..40, powers of two +-1 up to 2^63-1), "
                      "Some/None, allocated chunk count, and for lo, hi and bucket edges +-1 the place that receives a single-point insert "
                      "and the single-point queries that see it", ASSUME_COMMON + ["wide coordinates are logged as offsets from lo shifted right by j <= Scale bits (harness arithmetic, j logged); the shift preserves buckets by the TLC-checked scaling lemma"])


# ---- clear == new (C12) ------------------------------------------------------------------------
def ord_suffix(rnd, keys, n):
    present, ops = set(), []
    for _ in range(n):
        k = rnd.randint(1, keys)
        c = rnd.randint(0, 9)
        if c <= 4 and k not in present:
            ops.append(f"i {k} {k * 1000 + rnd.randint(1, 99)}")
            present.add(k)
        elif c <= 6:
            ops.append(f"d {k}")
            present.discard(k)
        elif c == 7 and k in present:
            ops.append(f"dh {k}")
            present.discard(k)
        elif c == 8 and k in present:
            ops.append(f"w {k} {k * 1000 + rnd.randint(1, 99)}")
        else:
            ops.append("q")
    ops.append("q")
    return ops


def key_suffix(rnd, keys, n, tspan=4):
    live, ops, t = {}, [], 0
    for _ in range(n):
        if rnd.random() < 0.3:
            t += rnd.randint(0, 2)
        k = rnd.randint(1, keys)
        c = rnd.randint(0, 9)
        if c <= 3 and not (k in live and live[k] > t):
            e = 2147483647 if rnd.random() < 0.12 else t + rnd.randint(0, tspan)     # sometimes E::max_expiration()
            ops.append(f"i {k} {e} {k * 1000 + (e % 100) * 10 + rnd.randint(0, 9)} {t}")
            live[k] = e
        elif c <= 5:
            ops.append(f"le {t} {rnd.randint(0, keys + 1)}")
        elif c == 6:
            ops.append(f"lt {t} {rnd.randint(0, keys + 1)}")
        elif c == 7:
            ops.append(f"by {t} {rnd.randint(0, 2 * keys + 2)}")
        elif c == 8:
            ops.append(f"get {t} {k}")
        else:
            ops.append("e")
    for k in range(0, keys + 2):
        ops.append(f"get {t} {k}")
    ops.append("e")
    return ops


CMP_KEYS = ("op", "k", "e", "v", "t", "p", "d", "rk", "rv", "out", "take", "a", "b")


def norm_event(ln, seg=False, idmap=None):
    d = json.loads(ln)
    o = {k: d[k] for k in CMP_KEYS if k in d}
    if seg and d.get("op") == "ins" and idmap is not None:
        idmap[d["id"]] = (d["a"], d["b"], d["e"])
    if "res" in d:
        if d.get("op") in ("fil", "filby", "after", "before"):
            o["res_is_sentinel"] = d["res"] == -1
        elif seg and isinstance(d["res"], list):
            # value ids are fresh per instance: compare the bag of (range, expiration) of what was yielded
            o["res"] = sorted(idmap.get(i, ("?", i)) for i in d["res"]) if idmap is not None else len(d["res"])
        else:
            o["res"] = d["res"]
    return o


def twin_compare(ctx, res, seg=False):
    """line-by-line comparison of `prefix; clear; suffix` with `suffix` on a fresh instance"""
    lines = read_events(res["trace"])
    starts = [i for i, ln in enumerate(lines) if ln.startswith(vlib.SEG_STARTS)] + [len(lines)]
    segs = [lines[starts[i]:starts[i + 1]] for i in range(len(starts) - 1)]
    keep = [i for i, sg in enumerate(segs) if len(sg) > 1]      # a session starts with an empty segment
    starts = [starts[i] for i in keep] + [len(lines)]
    segs = [segs[i] for i in keep]
    bad = 0
    for i in range(0, len(segs) - 1, 2):
        a, b = segs[i], segs[i + 1]
        clr = max((j for j, ln in enumerate(a) if '"op":"clear"' in ln), default=None)
        if clr is None:
            raise ToolError("twin: no clear in the first segment")
        ma, mb = {}, {}
        ea = [norm_event(x, seg, ma) for x in a[clr + 1:]]
        eb = [norm_event(x, seg, mb) for x in b[1:]]
        if ea != eb:
            j = next((j for j in range(min(len(ea), len(eb))) if ea[j] != eb[j]), min(len(ea), len(eb)))
            x = {"tag": "TWIN", "l": starts[i] + clr + 2 + j, "seg": starts[i] + 1,
                 "info": ["after clear", ea[j] if j < len(ea) else None, "fresh instance", eb[j] if j < len(eb) else None]}
            res["mine"].append(x)
            ctx.viols.append((res, x))
            bad += 1
    ctx.notes.append(f"{res['name']}: {len(segs) // 2} twin pairs compared, {bad} differ")


def plan_c12(ctx):
    import random
    q = ctx.quick()
    rnd = random.Random(ctx.seed)
    ctx.model("mcord-a", "MCOrd", ord_consts(5 if q else 7), ORD_INV)
    ctx.model("mckey-a", "MCKey", key_consts(3, 3), KEY_INV)
    ctx.model("mclist", "MCKeyList", {"Keys": keyset(3), "MaxTime": 3, "Faults": "FALSE"}, ["MinExpOK", "Refinement"])
    seg_models(ctx)
    jobs = []
    # ordered map / set
    opaths = ctx.cover("cover-ord-k5c0", "MCOrd", ord_consts(5, 0, True), ORD_INV)
    rnd.shuffle(opaths)
    grow = []
    for _ in range(3):
        ks = list(range(1, 31))
        rnd.shuffle(ks)
        grow.append("0|" + ";".join(f"i {k} {k * 1000 + 1}" for k in ks[:rnd.randint(9, 30)]) + ";")
    for coll in ORD_TREES_MAP + ORD_TREES_SET + ORD_LISTS:
        pf = ctx.path(f"twin-{coll}.txt")
        with open(pf, "w") as f:
            for p in grow + opaths[:25 if q else 150] + ["0|", "0|c;"]:
                for _ in range(2 if q else 3):
                    sfx = ";".join(ord_suffix(rnd, 6, rnd.randint(2, 9)))
                    cap = p.split("|")[0]
                    f.write(f"{p}c;{sfx}\n{cap}|{sfx}\n")
        jobs.append((coll, "paths", {"paths": pf, "keys": 6, "fanout": 0}, False))
    # expiring-key tree / list (the clock restarts at 0 after the clear)
    kpaths = ctx.cover("cover-key-k3t3c0", "MCKey", key_consts(3, 3, 0), KEY_INV)
    rnd.shuffle(kpaths)
    kgrow = ["0|" + ";".join(f"i {k} {rnd.randint(3, 9)} {k * 1000 + 1} 3" for k in range(1, 21)) + ";",
             "0|" + ";".join(f"i {k} 2147483647 {k * 1000 + 1} 0" for k in range(1, 4)) + ";",
             "0|i 1 2 1001 0;i 2 2147483647 2001 0;le 3 3;"]
    for coll in ("keytree", "keylist"):
        pf = ctx.path(f"twin-{coll}.txt")
        with open(pf, "w") as f:
            for p in kgrow + kpaths[:40 if q else 300] + ["0|", "0|c;"]:
                for _ in range(2 if q else 3):
                    sfx = ";".join(key_suffix(rnd, 4, rnd.randint(2, 10)))
                    cap = p.split("|")[0]
                    f.write(f"{p}c;{sfx}\n{cap}|{sfx}\n")
        jobs.append((coll, "paths", {"paths": pf, "keys": 4, "tmax": 3, "fanout": 0, "export": 0}, False))
    # segment tree
    for di, (coll, lo, hi) in enumerate(SEG_DOMAINS[:3] + SEG_DOMAINS[3:(4 if q else 9)]):
        pf = ctx.path(f"twin-{coll}-d{di}.txt")
        span = hi - lo

        def pt():
            return lo + (rnd.randint(0, 32) * span) // 32 if rnd.random() < 0.5 else rnd.randint(lo, hi)

        def hist(n, t0):
            ops, t = [], t0
            for _ in range(n):
                a, b = sorted((pt(), pt()))
                if rnd.random() < 0.12:
                    a, b = lo, hi           # a value over the whole domain (stored at the root place)
                if rnd.random() < 0.55:
                    ops.append(f"i {a} {b} {t + rnd.randint(-1, 3)}")
                else:
                    t += rnd.randint(0, 1)
                    ops.append(f"q {a} {b} {t} {rnd.choice([-1, -1, -1, 1, 2])}")
            ops.append(f"q {lo} {hi} {t} -1")
            return ops
        with open(pf, "w") as f:
            for _ in range(12 if q else 80):
                pre = hist(rnd.randint(0, 12), rnd.randint(0, 3))
                sfx = hist(rnd.randint(1, 8), 0)
                f.write(f"n {lo} {hi};" + ";".join(pre) + ";c;" + ";".join(sfx) + "\n")
                f.write(f"n {lo} {hi};" + ";".join(sfx) + "\n")
        jobs.append((coll, "script", {"file": pf}, True))
    futs = [(ctx.submit(f"twin-{c}-{i}", c, d, p, flags=("twin",)), sg) for i, (c, d, p, sg) in enumerate(jobs)]
    for f, sg in futs:
        r = f.result()
        ctx.traces.append(r)
        for x in r["mine"]:
            ctx.viols.append((r, x))
        twin_compare(ctx, r, seg=sg)
    # clear at every population 1..N (every combination of arena size and free slots), refilled past the old
    # arena size; clear of an exactly full arena; clear of long bucket lists - what follows the clear is judged
    # against the reference, which after a clear is that of a new instance
    more = ord_scale_jobs(ctx, ORD_TREES_MAP[:1] + ORD_TREES_SET[:1] + ORD_LISTS[:1] + ORD_LISTS[2:3] if q else ORD_TREES_MAP + ORD_TREES_SET + ORD_LISTS, flags=("twin",))
    more += key_scale_jobs(ctx, ["keytree", "keylist"], "A", flags=("twin",))
    more += seg_dense_jobs(ctx, flags=("twin",))
    ctx.collect(more)
    return ctx.finish("clear sweeps: every population 1..90 (thorough: 260) filled, cleared and refilled past the old arena size; "
                      "model: clear leads every reachable state back to the initial abstract state (asserted on every clear transition); "
                      "conformance: for covered states P (TLC cover paths, arena-growth prefixes, the empty collection, a double clear) and "
                      "seeded random suffixes S, `P; clear; S` and `S` on a newly constructed instance are both validated by TLC against the "
                      "reference and compared with each other result by result (handles compared through the entries they read); all seven "
                      "collections, the clock restarting at 0 after the clear", ASSUME_COMMON)


def plan_c10(ctx):
    """no panic / abort / hang inside the contract: the union of all alphabets on all seven collections"""
    q = ctx.quick()
    ctx.model("mcord-a", "MCOrd", ord_consts(6 if q else 8), ORD_INV)
    ctx.model("mckey-a", "MCKey", key_consts(3, 3), KEY_INV)
    ctx.model("mclist", "MCKeyList", {"Keys": keyset(3), "MaxTime": 3, "Faults": "FALSE"}, ["MinExpOK", "Refinement"])
    ctx.model("mcordlist", "MCOrdList", {"Keys": keyset(6), "StepMode": '"fixed"'}, ["Inv"], view=False)
    seg_models(ctx, heap=True, layout=True)
    allord = ORD_TREES_MAP + ORD_TREES_SET + ORD_LISTS
    futs = ord_cover_jobs(ctx, ["maptree-i32", "settree-i32", "setlist-i32", "maplist-str"] if q else allord, 4 if q else 5, [0, 1] if q else [0, 1, 8, 33], 1,
                          limit=40 if q else None)
    futs += key_cover_jobs(ctx, ["keytree", "keylist"], 3, 2 if q else 3, [0] if q else [0, 1, 33], 1 if q else 2, limit=50 if q else 400)
    futs += random_jobs(ctx, allord, 1 if q else 4, {"keys": 12, "steps": 1500 if q else 8000, "seglen": 120})
    futs += random_jobs(ctx, ["keytree", "keylist"], 1 if q else 4, {"keys": 10, "tspan": 6, "steps": 2000 if q else 10000, "seglen": 60})
    futs += seg_random_jobs(ctx, 1 if q else 3, 800 if q else 5000)
    futs += seg_dense_jobs(ctx)
    # sizes far outside the exhaustive universes: threshold sweeps, clear sweeps, deep bulk runs; every valid small tree
    futs += ord_scale_jobs(ctx, allord, deep=420000)
    futs += key_scale_jobs(ctx, ["keytree", "keylist"], "ABCDG", deep=20000 if q else 60000)
    futs += ord_ind_jobs(ctx, ["maptree-i32", "settree-i32"], 7 if q else 10, 1 if q else 4, limit=60 if q else 3000)
    futs += key_ind_jobs(ctx, 4 if q else 5, 1 if q else 4, limit=60 if q else 2000, export=1)
    futs += layout_jobs(ctx, not q)
    futs += [ctx.submit(f"sizes-{c}", c, "sizes", {"max": (10000 if q else 1000000) if c == "keytree" else 10000}) for c in ("keytree", "keylist")]
    ctx.collect(futs)
    return ctx.finish("model: every arena / chunk access of the layer-1 models goes through an asserting accessor and every debug_assert! of the "
                      "code is an Assert, so an out-of-bounds index or failed assertion in the modelled operations is a TLC error; conformance: "
                      "every driver (cover fan-out incl. both ends of set walks, exports after lazy removals, random churn, all seg domains, "
                      "layout grid, capacity hints 0/1/8/33) runs under catch_unwind in a build with debug assertions, overflow checks and unsafe "
                      "precondition checks with a watchdog; a call that panics, aborts or does not return is an event no action of the "
                      "specification explains", ASSUME_COMMON)


PLANS = {"C01": plan_key_semantics, "C06": plan_key_semantics, "C20": plan_key_semantics,
         "C02": plan_structure, "C11": plan_structure, "C04": plan_c04, "C05": plan_c05, "C08": plan_c08,
         "C09": plan_c09, "C17": plan_c17, "C13": plan_lists, "C07": plan_export, "C19": plan_export, "C18": plan_faults,
         "C03": plan_c03, "C14": plan_c14, "C15": plan_c15, "C16": plan_c16, "C12": plan_c12, "C10": plan_c10}



def run_property(pid, tier, seed):
    if pid not in PLANS:
        log(f"no check is built for {pid}")
        return 2
    ctx = Ctx(pid, tier, seed)
    build_harness()
    return PLANS[pid](ctx)


def setup():
    build_harness()
    bad = 0
    for f in sorted(glob.glob(os.path.join(SPEC, "*.tla"))):
        p = subprocess.run(["tla-sany", os.path.basename(f)], cwd=SPEC, stdout=subprocess.PIPE, stderr=subprocess.STDOUT, text=True)
        if p.returncode != 0 or "*** Errors" in p.stdout or "Fatal" in p.stdout:
            log("[setup] SANY rejects", f)
            log(p.stdout[-1500:])
            bad += 1
    log(f"[setup] harness built, {len(glob.glob(os.path.join(SPEC, '*.tla')))} modules parsed, {bad} rejected")
    return 2 if bad else 0


def replay(path):
    """re-execute a replay file on the current code and validate the new trace"""
    lines = open(path).read().splitlines()
    hdr = json.loads(lines[0])
    pid, coll = hdr["property"], hdr["coll"]
    ctx = Ctx("replay-" + pid, "quick", 1)
    ctx.pid = pid
    flags = ("fault", "twin")
    # the observation sweeps of the list variants must cover every key the recorded calls mention
    import re as _re
    mentioned = [int(x) for ln in lines[1:] for x in _re.findall(r'"(?:k|p|hi|lo)":(-?\d+)', ln.split('"snap"')[0])]
    keys = max([int(hdr["params"].get("keys", 8))] + [min(m, 5000) for m in mentioned])
    r = ctx.trace_job("replay", coll, "replay", {"file": os.path.abspath(path), "keys": keys}, flags=flags)
    for x in r["mine"]:
        log(f"VIOLATION property={pid} replay={path}")
        log(f"   {coll} {x['tag']} at event {x['l']}: {json.dumps(x['info'])[:400]}")
        return 1
    log(f"replay of {path}: no violation of {pid} on the current code")
    return 0


def selftest():
    """Anti-vacuity: every predicate of the trace specifications must reject a trace in which the
    field it speaks about has been corrupted (and accept the uncorrupted trace)."""
    import copy
    import random
    build_harness()
    wd = workdir("selftest", fresh=True)
    rnd = random.Random(7)
    runs = {
        "keytree": ("keytree", "random", {"seed": 11, "keys": 6, "tspan": 4, "steps": 400, "seglen": 40}),
        "keylist": ("keylist", "random", {"seed": 12, "keys": 6, "tspan": 4, "steps": 400, "seglen": 40}),
        "settree": ("settree-str", "random", {"seed": 13, "keys": 8, "steps": 500, "seglen": 60}),
        "maplist": ("maplist-i32", "random", {"seed": 14, "keys": 8, "steps": 400, "seglen": 60}),
        "seg": ("seg-i32", "random", {"seed": 15, "lo": -7, "hi": 40, "steps": 300, "seglen": 50}),
        "matrix": ("seg-i32", "matrix", {"from": 100, "to": 104}),
        "layout": ("seg-i32", "layout", {"domains": "-70:229,0:31"}),
        # the scale layer: bulk events of the three kinds of collection
        "keybulk": ("keytree", "scale", {"rounds": "D", "deep": 300, "seed": 3}),
        "ordsweep": ("maptree-i32", "scale", {"plan": "", "sweep_lo": 9, "sweep_hi": 12, "seed": 3}),
        "segdense": ("seg-i32", "dense", {"lo": -7, "hi": 40, "seed": 3, "inject": 0, "bulk": 60}),
        "segsum": ("seg-i32", "dense", {"lo": 0, "hi": 31, "seed": 4, "inject": 0, "bulk": 6000}),
        "cnt": ("settree-cnt", "random", {"seed": 16, "keys": 8, "steps": 300, "seglen": 60}),
        "ind": ("maptree-i32", "ind", {"states": os.path.join(wd, "ind-states.txt"), "handles": 1}),
    }
    # two start states in the syntax TLC prints them in (a three-node tree with a full arena, one with free slots)
    with open(os.path.join(wd, "ind-states.txt"), "w") as f:
        f.write('"snap":{"root":1,"nd":[[0,0,0,1,0,0,0],[-1,2,3,0,4,4001,0],[1,-1,-1,1,2,2001,0],[1,-1,-1,1,6,6001,0]],"free":[],"ucap":8}\n')
        f.write('"snap":{"root":1,"nd":[[0,0,0,1,0,0,0],[-1,2,-1,0,4,4001,0],[1,-1,-1,1,2,2001,0],[0,0,0,1,0,0,0],[0,0,0,1,0,0,0]],"free":[4,3],"ucap":2}\n')
    base = {}
    for name, (coll, drv, params) in runs.items():
        out = os.path.join(wd, name + ".ndjson")
        run_harness(coll, drv, params, out)
        v = tlc_trace(spec_of(coll), out, os.path.join(wd, "meta-" + name))
        if v["viols"] or v["breaches"] or not v["accepted"]:
            log(f"selftest: the uncorrupted trace {name} is not clean: {v['viols'][:2]} {v['breaches'][:2]}")
            return 1
        base[name] = (coll, [json.loads(x) for x in read_events(out)])

    def find(evs, pred):
        idx = [i for i, e in enumerate(evs) if pred(e)]
        return rnd.choice(idx) if idx else None

    def stored(e):
        return [i for i, n in enumerate(e["snap"]["nd"]) if i not in e["snap"]["free"] and i != 0]

    # (name, trace, expected tag, selector, mutation)
    K = []
    okq = lambda op: (lambda e: e.get("op") == op and e.get("out") == "ok")
    K.append(("key result lt", "keytree", "RES_PRED", okq("lt"), lambda e: e.update(res=e["res"] + 1)))
    K.append(("key result get", "keytree", "RES_GET", okq("get"), lambda e: e.update(res=12345)))
    K.append(("key colour flipped", "keytree", "WF", lambda e: "snap" in e and e.get("ev") == "op" and len(stored(e)) >= 3,
              lambda e: [n.__setitem__(3, 1) for n in e["snap"]["nd"]]))
    K.append(("key free slot dropped", "keytree", "POOL", lambda e: "snap" in e and e.get("ev") == "op" and e["snap"]["free"],
              lambda e: e["snap"]["free"].pop()))
    K.append(("key free slot doubled", "keytree", "POOL", lambda e: "snap" in e and e.get("ev") == "op" and e["snap"]["free"],
              lambda e: e["snap"]["free"].append(e["snap"]["free"][0])))
    K.append(("key stored value changed", "keytree", "REFINE", lambda e: "snap" in e and e.get("ev") == "op" and e["snap"]["root"] >= 0 and e["snap"]["nd"][e["snap"]["root"]][6] > e.get("t", 10**6),
              lambda e: e["snap"]["nd"][e["snap"]["root"]].__setitem__(5, 424242)))
    K.append(("key expired key compared", "keytree", "CMPLIVE", lambda e: e.get("cmp") and "t" in e,
              lambda e: e["cmp"][0].__setitem__(1, e["t"]) or e["cmp"][0].__setitem__(2, 0)))
    K.append(("key call panicked", "keytree", "OUTCOME", okq("le"), lambda e: e.update(out="panic", msg="x")))
    K.append(("key export element dropped", "keytree", "EXPORT", lambda e: e.get("op") == "export" and e.get("res"), lambda e: e["res"].pop()))
    K.append(("key export capacity", "keytree", "EXPCAP", lambda e: e.get("op") == "export" and "vcap" in e, lambda e: e.update(vcap=100000)))
    K.append(("key arena doubled", "keytree", "GROWTH", lambda e: "snap" in e and e.get("ev") == "op",
              lambda e: (e["snap"]["free"].extend(range(len(e["snap"]["nd"]), len(e["snap"]["nd"]) + 90)),
                         e["snap"]["nd"].extend([[0, 0, 0, 1, 0, 0, 0]] * 90))))
    K.append(("list result le", "keylist", "RES_PRED", okq("le"), lambda e: e.update(res=e["res"] + 1)))
    K.append(("list observation", "keylist", "REFINE", lambda e: e.get("obs"), lambda e: e["obs"].pop()))
    K.append(("list export", "keylist", "EXPORT", lambda e: e.get("op") == "export" and e.get("res"), lambda e: e["res"].reverse() if len(e["res"]) > 1 else e["res"].pop()))
    K.append(("set get payload", "settree", "RES_GET", lambda e: e.get("op") == "get" and e.get("res", -999999) != -999999, lambda e: e.update(res=e["res"] + 1)))
    K.append(("set handle sentinel", "settree", "HANDLE", lambda e: e.get("op") == "fil" and e.get("res", -1) >= 0, lambda e: e.update(res=-1)))
    K.append(("set handle reads other entry", "settree", "HANDLE", lambda e: e.get("op") == "fil" and e.get("res", -1) >= 0, lambda e: e.update(rk=e["rk"] + 1)))
    K.append(("set step result", "settree", "STEP", lambda e: e.get("op") in ("after", "before") and e.get("res", -1) >= 0, lambda e: e.update(res=-1)))
    K.append(("set is_empty", "settree", "EMPTY", okq("empty"), lambda e: e.update(res=1 - e["res"])))
    K.append(("set link corrupted", "settree", "WF", lambda e: "snap" in e and e.get("ev") == "op" and len(stored(e)) >= 2,
              lambda e: e["snap"]["nd"][e["snap"]["root"]].__setitem__(0, 3)))
    def share_child(e):
        # two parents link to the same child: the root's left child is also made its right child
        r = e["snap"]["root"]
        nd = e["snap"]["nd"]
        nd[r][2] = nd[r][1] if nd[r][1] >= 0 else nd[r][2]
        nd[r][1] = nd[r][2]

    def make_cycle(e):
        # a leaf's left link points back to the root
        nd = e["snap"]["nd"]
        leaf = next(i for i in stored(e) if nd[i][1] == -1 and nd[i][2] == -1 and i != e["snap"]["root"])
        nd[leaf][1] = e["snap"]["root"]

    K.append(("set child shared by two links", "settree", "WF", lambda e: "snap" in e and e.get("ev") == "op" and len(stored(e)) >= 3, share_child))
    K.append(("set cycle through the root", "settree", "WF", lambda e: "snap" in e and e.get("ev") == "op" and len(stored(e)) >= 3, make_cycle))
    K.append(("set link out of range", "settree", "WF", lambda e: "snap" in e and e.get("ev") == "op" and len(stored(e)) >= 2,
              lambda e: e["snap"]["nd"][e["snap"]["root"]].__setitem__(1, 10**6)))
    K.append(("set stored payload", "settree", "REFINE", lambda e: e.get("op") == "ins" and "snap" in e,
              lambda e: e["snap"]["nd"][e["snap"]["root"]].__setitem__(5, 777)))
    K.append(("list handle position", "maplist", "HPOS", lambda e: e.get("op") == "fil" and e.get("res", -1) >= 1, lambda e: e.update(res=e["res"] - 1)))
    K.append(("list get", "maplist", "RES_GET", lambda e: e.get("op") == "get" and e.get("res", -999999) != -999999, lambda e: e.update(res=5)))
    K.append(("seg duplicate yield", "seg", "YIELD", lambda e: e.get("op") == "query" and e.get("res"), lambda e: e["res"].append(e["res"][0])))
    K.append(("seg missing yield", "seg", "COMPLETE", lambda e: e.get("op") == "query" and e.get("res") and e["take"] < 0, lambda e: e["res"].pop()))
    K.append(("seg expired copy kept", "seg", "COPIES", lambda e: e.get("op") == "query" and e.get("whole") == 1 and e.get("ch"),
              lambda e: e["ch"][0][1].append([9999, e["t"] - 1])))
    K.append(("seg copy missing at a place", "seg", "PLACES", lambda e: e.get("op") == "ins" and e.get("ch"),
              lambda e: next(c for c in e["ch"] if any(x[0] == e["id"] for x in c[1]))[1].__setitem__(
                  slice(None), [x for x in next(c for c in e["ch"] if any(x[0] == e["id"] for x in c[1]))[1] if x[0] != e["id"]] + [[9998, 50]])))
    K.append(("seg matrix row", "matrix", "MATRIX", lambda e: e.get("op") == "matrix", lambda e: e["row"].pop()))
    K.append(("seg point place", "layout", "LAYOUT", lambda e: e.get("op") == "point", lambda e: e.update(places=[e["places"][0] + 1])))
    K.append(("seg chunk count", "layout", "LAYOUT", lambda e: e.get("ev") == "new" and e.get("built") == 1, lambda e: e.update(count=e["count"] + 1)))
    K.append(("seg built flag", "layout", "LAYOUT", lambda e: e.get("ev") == "new" and e.get("built") == 1, lambda e: e.update(built=0, count=0)))

    isbulk = lambda e: e.get("op") == "bulk" and e.get("out") == "ok"
    K.append(("key bulk run shorter than logged", "keybulk", "RES_GET", lambda e: isbulk(e) and e["e"] == 1000, lambda e: e.update(hi=e["hi"] - 1)))
    K.append(("key bulk expiration", "keybulk", "RES_PRED", lambda e: isbulk(e) and e["e"] == 5, lambda e: e.update(e=500)))
    K.append(("ord bulk value rule", "ordsweep", "REFINE", lambda e: isbulk(e) and "snap" in e, lambda e: e.update(va=e["va"] + 1)))
    K.append(("ord bulk snapshot loses a free slot", "ordsweep", "POOL", lambda e: isbulk(e) and "snap" in e and e["snap"]["free"], lambda e: e["snap"]["free"].pop()))
    K.append(("ord bulk keys shifted", "ordsweep", "RES_GET", lambda e: isbulk(e) and e["lo"] == 1, lambda e: e.update(lo=3, hi=e["hi"] + 2)))
    K.append(("seg bulk run shorter than logged", "segdense", "YIELD", isbulk, lambda e: e.update(n=e["n"] - 1)))
    K.append(("seg bulk expiration", "segdense", "YIELD", isbulk, lambda e: e.update(e=0)))

    K.append(("seg summary count", "segsum", "COMPLETE", lambda e: e.get("op") == "queryn" and e.get("take") == -1, lambda e: e.update(n=e["n"] - 1, nd=e["nd"] - 1)))
    K.append(("seg clock run count", "segsum", "YIELD", lambda e: e.get("op") == "ticks", lambda e: e.update(nonempty=e["nonempty"] + 1)))
    K.append(("seg summary duplicate", "segsum", "YIELD", lambda e: e.get("op") == "queryn", lambda e: e.update(nd=e["nd"] - 1)))
    K.append(("payload instances left at drop", "cnt", "DROPS", lambda e: e.get("op") == "drop", lambda e: e.update(residue=-1)))
    K.append(("loaded start state not a red-black tree", "ind", "WF", lambda e: e.get("ev") == "load" and len(stored(e)) >= 3,
              lambda e: [n.__setitem__(3, 1) for n in e["snap"]["nd"]]))
    K.append(("loaded start state loses a slot", "ind", "POOL", lambda e: e.get("ev") == "load" and e["snap"]["free"], lambda e: e["snap"]["free"].pop()))
    K.append(("insert from a loaded state moves a handle's entry", "ind", "STABLE", lambda e: e.get("op") == "ins" and "snap" in e and len(stored(e)) >= 3,
              lambda e: (lambda nd, a, b: (nd[a].__setitem__(slice(4, 6), nd[b][4:6]), nd[b].__setitem__(slice(4, 6), [k for k in nd[a][4:6]])))(e["snap"]["nd"], stored(e)[0], stored(e)[1])))

    def one(k):
        title, tname, tag, sel, mut = k
        coll, evs = base[tname]
        i = find(evs, sel)
        if i is None:
            return (title, tag, "NO-CANDIDATE", None)
        evs2 = copy.deepcopy(evs)
        mut(evs2[i])
        out = os.path.join(wd, "corrupt-" + title.replace(" ", "_") + ".ndjson")
        with open(out, "w") as f:
            for e in evs2:
                f.write(json.dumps(e, separators=(",", ":")) + "\n")
        try:
            v = tlc_trace(spec_of(coll), out, out + ".meta")
        except ToolError as ex:
            return (title, tag, "TOOL-ERROR " + str(ex)[:200], i + 1)
        tags = {x["tag"] for x in v["viols"] if x["l"] >= i + 1}
        return (title, tag, "rejected" if tag in tags else f"NOT-REJECTED (got {sorted(tags)})", i + 1)

    with ThreadPoolExecutor(max_workers=6) as ex:
        results = list(ex.map(one, K))
    bad = 0
    for title, tag, verdict, at in results:
        log(f"  {title:32s} expects {tag:9s} at event {at}: {verdict}")
        bad += verdict != "rejected"
    # binding: without the snapshot the structural predicates have nothing to speak about
    coll, evs = base["keytree"]
    evs2 = copy.deepcopy(evs)
    for e in evs2:
        if e.get("ev") == "op":
            e.pop("snap", None)
    out = os.path.join(wd, "nosnap.ndjson")
    with open(out, "w") as f:
        for e in evs2:
            f.write(json.dumps(e, separators=(",", ":")) + "\n")
    v = tlc_trace("TraceKey", out, out + ".meta")
    log(f"  snapshots removed from all events: {len(v['breaches'])} 'snapshot missing' reports (a check would exit 2: the binding is not vacuous)")
    bad += 0 if v["breaches"] else 1
    log(f"selftest: {len(K) + 1 - bad}/{len(K) + 1} corruptions rejected")
    with open(os.path.join(VERIF, "evidence", "selftest.txt"), "w") as f:
        for title, tag, verdict, at in results:
            f.write(f"{title}\t{tag}\t{verdict}\n")
    return 0 if bad == 0 else 1


import subprocess  # noqa: E402
