------------------------------ MODULE KeyExpRef ------------------------------
(***************************************************************************)
(* Layer 0: what a caller of an expiring-key collection (KeyExpTree or     *)
(* KeyExpList) may rely on.  State: the entries inserted since the last    *)
(* clear and the last time supplied.  The enabling condition of each       *)
(* action is the caller's contract; the result predicate is the promise.   *)
(* Properties C01, C06, C07, C12, C13 are statements about this module.    *)
(***************************************************************************)
EXTENDS Integers, Sequences, FiniteSets, FiniteSetsExt, SequencesExt   \* FiniteSetsExt: linear-time Max / Min of a set; SequencesExt: SetToSortSeq

VARIABLES ents,      \* set of [k, e, v]: key, expiration, value
          now        \* last time supplied since the last clear

NoVal == -999999     \* "None"

LiveAt(S, t) == {x \in S : x.e > t}            \* strict: visible at t iff e > t
\* the entry with the greatest / least key (live keys are distinct, so it is unique where it matters)
\* (FoldSet is linear under TLC; FiniteSetsExt's Max / Min are quadratic)
MaxKey(S) == FoldSet(LAMBDA a, b : IF a.k > b.k THEN a ELSE b, CHOOSE x \in S : TRUE, S)
MinKey(S) == FoldSet(LAMBDA a, b : IF a.k < b.k THEN a ELSE b, CHOOSE x \in S : TRUE, S)

\* ---- contract ------------------------------------------------------------
CanInsert(k, e, t) == t >= now /\ e >= t /\ ~\E x \in LiveAt(ents, t) : x.k = k
CanQuery(t)        == t >= now

\* ---- promised results ------------------------------------------------------
RefLT(t, p, d) == LET C == {x \in LiveAt(ents, t) : x.k <  p} IN IF C = {} THEN d ELSE MaxKey(C).v
RefLE(t, p, d) == LET C == {x \in LiveAt(ents, t) : x.k <= p} IN IF C = {} THEN d ELSE MaxKey(C).v
\* comparator "compare 2*key with th": th even designates a key, th odd a gap
RefBy(t, th, d) == LET C == {x \in LiveAt(ents, t) : 2 * x.k <= th} IN IF C = {} THEN d ELSE MaxKey(C).v
RefGet(t, k)   == LET C == {x \in LiveAt(ents, t) : x.k = k} IN IF C = {} THEN NoVal ELSE MaxKey(C).v

\* the values of the live entries in increasing key order (live keys are distinct)
SortByKey(S) == LET s == SetToSortSeq(S, LAMBDA a, b : a.k < b.k) IN [i \in 1..Len(s) |-> s[i].v]
RefExport(t) == SortByKey(LiveAt(ents, t))

\* only this much is promised about is_empty: a live entry => not empty
IsEmptyOK(res) == res \in BOOLEAN /\ (LiveAt(ents, now) # {} => res = FALSE)

\* ---- actions ---------------------------------------------------------------
Init == ents = {} /\ now = 0

Insert(k, e, v, t) == /\ CanInsert(k, e, t)
                      /\ ents' = ents \cup {[k |-> k, e |-> e, v |-> v]}
                      /\ now' = t
\* a run of insertions of the keys lo..hi (value = key, one common expiration) at one time, in any order
BulkSet(lo, hi, e)   == {[k |-> i, e |-> e, v |-> i] : i \in lo..hi}
CanBulk(lo, hi, e, t) == t >= now /\ e >= t /\ ~\E x \in LiveAt(ents, t) : x.k >= lo /\ x.k <= hi
BulkInsert(lo, hi, e, t) == /\ CanBulk(lo, hi, e, t)
                            /\ ents' = ents \cup BulkSet(lo, hi, e)
                            /\ now' = t
Query(t)  == CanQuery(t) /\ now' = t /\ UNCHANGED ents        \* any of the four look-ups
Clear     == ents' = {} /\ now' = 0                           \* the caller's clock may restart

\* ---- consequences stated in C01 ("visible below its expiration, never from it on")
VisibleIffBelowExpiration ==
  \A x \in ents : \A t \in now..(x.e + 1) :
      (x \in LiveAt(ents, t)) <=> (t < x.e)
=============================================================================
