------------------------------ MODULE MCKey ------------------------------
(***************************************************************************)
(* Exhaustive model of KeyExpTree: all histories of insert / first_less /  *)
(* first_less_or_equal / first_less_or_equal_by / get_value / clear over a *)
(* finite key universe and time line, with the time of every call free in  *)
(* now..MaxTime.  Decides on the specification:                            *)
(*   C01, C06  results = reference semantics (KeyExpRef)                   *)
(*   C02, C11  WellFormed, PoolOK, arena bound, in every reachable state   *)
(*   C07, C19  ordered export and its capacity, from every reachable state *)
(*   C18       every callback point leaves a valid tree showing the        *)
(*             pre-state's live contents; PanicAt successors are explored  *)
(*   C20       only live stored keys reach comparison code                 *)
(*   C12       clear leads back to the initial abstract state              *)
(* States are identified up to renaming of arena slots (VIEW).             *)
(***************************************************************************)
EXTENDS KeyExpTree

CONSTANTS Keys,        \* e.g. {1,2,3}
          MaxTime,     \* times 0..MaxTime, expirations 0..MaxTime+1
          Cap0,        \* capacity hint
          Faults,      \* TRUE: check C18 at every callback point and explore PanicAt successors
          GetMode,     \* "get" (repaired) or "getAsCoded" (defect D1)
          ExportMode,  \* "fixed" (skip expired entries during the traversal), "asCoded" (purge first, defect D2)
                       \* or "asCodedLE" (the purge with <= instead of <: D2b and D2c remain)
          CapMode,     \* "fixed" (capacity = stored entries) or "asCoded" (8 << 2*black height, defect D5)
          Emit         \* TRUE: print one shortest path per distinct state (spec -> code replay)

VARIABLES T, now, ents, path
vars == <<T, now, ents, path>>

R == INSTANCE KeyExpRef
NONE == -7           \* the caller's default
NoVal == -999999

Times == 0..MaxTime
Exps  == 0..(MaxTime + 1)
Probes == {0} \cup Keys \cup {Max(0, CHOOSE k \in Keys : \A j \in Keys : j <= k) + 1}
Thetas == 1..(2 * (CHOOSE k \in Keys : \A j \in Keys : j <= k) + 1)

Val(k, e) == 1000 * k + 10 * e + 9

Refines(TT, S, t) == R!LiveAt(Phys(TT), t) = R!LiveAt(S, t) /\ Phys(TT) \subseteq S

Init == T = NewTree(Cap0) /\ now = 0 /\ ents = {} /\ path = ""

\* C20
CmpLive(log, t) == \A j \in 1..Len(log) : log[j].kind = "cmp" => log[j].e > t
\* C18 at every callback point: valid, un-torn (shows exactly the pre-state's live contents)
PanicSafe(log, S, t) == \A j \in 1..Len(log) :
   WellFormed(log[j].T) /\ PoolOK(log[j].T) /\ R!LiveAt(Phys(log[j].T), t) = R!LiveAt(S, t)

I2S(i) == ToString(i)

DoInsert(k, e, t) ==
  /\ R!CanInsert(k, e, t)
  /\ LET v == Val(k, e)
         r == XInsert(T, k, v, e, t)
     IN /\ Assert(CmpLive(r[2], t), <<"C20 insert", k, e, t>>)
        /\ (Faults => Assert(PanicSafe(r[2], ents, t), <<"C18 insert", k, e, t>>))
        /\ \/ /\ T' = r[1]
              /\ R!Insert(k, e, v, t)
              /\ Assert(Refines(T', ents', t), <<"insert refinement", k, e, t>>)
              \* lazily removed entries are Give steps, the new entry one Take / GrowTake step (PoolSym)
              /\ Assert(AbsPool(T') = AbsTake(AbsGives(AbsPool(T), Count(T) + 1 - Count(T'))), "insert: abstract pool steps")
              /\ path' = path \o "i " \o I2S(k) \o " " \o I2S(e) \o " " \o I2S(v) \o " " \o I2S(t) \o ";"
           \/ /\ Faults
              /\ \E j \in 1..Len(r[2]) : T' = r[2][j].T      \* PanicAt(insert, j)
              /\ R!Query(t)
              /\ path' = path

DoQuery(mode, p, t) ==
  /\ R!CanQuery(t)
  /\ LET q   == XQuery(T, t, p, NONE, IF mode = "get" THEN GetMode ELSE mode)
         ref == CASE mode = "lt" -> R!RefLT(t, p, NONE)
                  [] mode = "le" -> R!RefLE(t, p, NONE)
                  [] mode = "by" -> R!RefBy(t, p, NONE)
                  [] mode = "get" -> IF R!RefGet(t, p) = NoVal THEN NONE ELSE R!RefGet(t, p)
     IN /\ Assert(CmpLive(q[3], t), <<"C20 query", mode, p, t>>)
        /\ (Faults => Assert(PanicSafe(q[3], ents, t), <<"C18 query", mode, p, t>>))
        /\ R!Query(t)
        /\ \/ /\ T' = q[1]
              /\ Assert(q[2] = ref, <<"query result", mode, p, t, q[2], ref>>)
              /\ Assert(Refines(T', ents', t), <<"query refinement", mode, p, t>>)
              /\ Assert(AbsPool(T') = AbsGives(AbsPool(T), Count(T) - Count(T')), "query: abstract pool steps")
              /\ path' = path \o mode \o " " \o I2S(t) \o " " \o I2S(p) \o ";"
           \/ /\ Faults
              /\ \E j \in 1..Len(q[3]) : T' = q[3][j].T      \* PanicAt(query, j)
              /\ path' = path

DoClear ==
  /\ T' = Clear(T)
  /\ R!Clear
  /\ Assert(Phys(T') = {} /\ Len(T'.free) = Len(T'.nd) - 1, "clear: entries left or slots not returned")
  /\ Assert(AbsPool(T') = AbsGives(AbsPool(T), Count(T)), "clear: abstract pool steps")
  /\ path' = path \o "c;"

Next == \/ \E k \in Keys, e \in Exps, t \in Times : DoInsert(k, e, t)
        \/ \E p \in Probes, t \in Times : DoQuery("lt", p, t) \/ DoQuery("le", p, t) \/ DoQuery("get", p, t)
        \/ \E th \in Thetas, t \in Times : DoQuery("by", th, t)
        \/ DoClear

Spec == Init /\ [][Next]_vars

View == <<Canon(T, T.root), Len(T.free), Len(T.nd), T.ucap, now>>

\* ---- invariants ------------------------------------------------------------------------
Structure == WellFormed(T) /\ PoolOK(T)
Refinement == Refines(T, ents, now) /\ R!VisibleIffBelowExpiration
\* at most one entry per key is ever stored, so the arena is bounded by the universe (C11)
ArenaBound == Len(T.nd) <= 3 * (Cardinality(Keys) + 1) + Max(Cap0, 8)
\* is_empty as coded: promised only "a live entry => not empty"
IsEmptyOK == R!IsEmptyOK(T.root = E)
\* C07 / C19: export from this state at every admissible time
ExportOK == \A t \in now..MaxTime :
   /\ (CASE ExportMode = "asCoded" -> ExportAsCoded(T, t, FALSE)
         [] ExportMode = "asCodedLE" -> ExportAsCoded(T, t, TRUE)
         [] OTHER -> Export(T, t)) = R!RefExport(t)
   /\ (IF CapMode = "asCoded" THEN ExportCapAsCoded(T) ELSE ExportCap(T)) <= 8 * Count(T) + 64

EmitCover == Emit => PrintT("COVER " \o I2S(Cap0) \o "|" \o path)
=============================================================================
