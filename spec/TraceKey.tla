------------------------------ MODULE TraceKey ------------------------------
(***************************************************************************)
(* Layer 2: validation of a trace recorded from the real KeyExpTree /       *)
(* KeyExpList against the reference semantics KeyExpRef (layer 0) and the   *)
(* structural invariants of RBArena (layer 1).                              *)
(*                                                                          *)
(* The trace specification is deterministic: one successor per event.  The  *)
(* reference state (ents, now) advances by the layer-0 action with the      *)
(* logged arguments; the structural state T is bound to the logged          *)
(* snapshot.  A predicate that is false does not stop the run: it is        *)
(* reported as   <<"VIOL", tag, event number, detail>>   and validation     *)
(* goes on, so one run assesses every property on every event.  A call the  *)
(* contract does not allow is reported as <<"BREACH", ...>> (harness bug).  *)
(***************************************************************************)
EXTENDS KeyExpTree, Json, IOUtils

VARIABLES l,        \* position in the trace
          ents, now,\* layer-0 state
          T,        \* physical state, bound to the snapshot (trees only)
          hasSnap,  \* the collection under test ships snapshots (tree) or observations (list)
          peak,     \* peak number of physically stored entries since reset
          cap0,     \* capacity hint of the instance
          stale,    \* T is older than the previous event (that event shipped no snapshot)
          gaps,     \* some event since reset shipped no snapshot: the peak population is unknown
          every,    \* the instance ships its snapshot with every n-th call (1 = always)
          rpeak     \* peak population according to the reference (an upper bound of the physical peak)

R == INSTANCE KeyExpRef

Rec == ndJsonDeserialize(IOEnv.TRACE)
Ev  == Rec[l]
Has(f) == f \in DOMAIN Ev

V(tag, cond, info) == IF cond THEN TRUE ELSE PrintT("VIOL " \o ToJson(<<tag, l, info>>))
Breach(info)       == PrintT("BREACH " \o ToJson(<<l, info>>))
\* diagnostic, never a verdict: the real arena differs from the layer-1 model's next state
Drift(cond, info)  == IF cond THEN TRUE ELSE PrintT("DRIFT " \o ToJson(<<l, info>>))

FromSnap(s) ==
  [root |-> s.root,
   nd   |-> [i \in 1..Len(s.nd) |-> [p |-> s.nd[i][1], l |-> s.nd[i][2], r |-> s.nd[i][3], c |-> s.nd[i][4],
                                     k |-> s.nd[i][5], v |-> s.nd[i][6], e |-> s.nd[i][7]]],
   free |-> s.free, ucap |-> s.ucap]

NoTree == [root |-> E, nd |-> <<>>, free |-> <<>>, ucap |-> 0]
NOEXP == -5
MinTime == (-2147483647 - 1)      \* no time has been supplied yet (new instance, or after clear): any time may follow

\* ---- predicates on the bound snapshot -------------------------------------------------------
GrowthOK(TT, pk, c0) == Len(TT.nd) <= 4 * (pk + 1) + Max(c0, 8)

Structure(TT, pk, c0) ==
  /\ V("WF", WellFormed(TT), "snapshot is not a valid red-black search tree")
  /\ V("POOL", PoolOK(TT), "slots are not partitioned into sentinel / tree / free list")
  /\ V("GROWTH", GrowthOK(TT, IF gaps THEN Max(pk, rpeak) ELSE pk, c0), <<"arena slots", Len(TT.nd), "peak stored", IF gaps THEN Max(pk, rpeak) ELSE pk>>)

\* refinement mapping on the snapshot: live physical entries = live reference entries
\* (the count excludes a live entry that is stored twice)
Refines(TT, S, t) == /\ RangeOK(TT) /\ R!LiveAt(Phys(TT), t) = R!LiveAt(S, t)
                     /\ Cardinality({i \in Reach(TT) : TT.nd[i + 1].e > t}) = Cardinality(R!LiveAt(S, t))

ObsSet == {<<Ev.obs[i][1], Ev.obs[i][2]>> : i \in 1..Len(Ev.obs)}
Visible(S, t) == {<<x.k, x.v>> : x \in R!LiveAt(S, t)}

\* C20: each side of every comparison is the probe / new key itself or a key still live at t
CmpLive(t) == \A i \in 1..Len(Ev.cmp) :
   LET c == Ev.cmp[i] IN (c[3] = 1 \/ c[2] > t) /\ (c[6] = 1 \/ c[5] > t)

Outcome == Ev.out

\* ---- one event ------------------------------------------------------------------------------
Bind == IF Has("snap") THEN FromSnap(Ev.snap) ELSE T

StepReset ==
  /\ ents' = {} /\ now' = MinTime /\ peak' = 0 /\ cap0' = Ev.cap /\ stale' = FALSE /\ gaps' = FALSE /\ every' = (IF Has("se") THEN Ev.se ELSE 1) /\ rpeak' = 0
  /\ hasSnap' = Has("snap")
  /\ T' = IF Has("snap") THEN FromSnap(Ev.snap) ELSE NoTree
  /\ (Has("snap") => Structure(T', 0, Ev.cap) /\ V("CLEARED", RangeOK(T') /\ Phys(T') = {}, "a new tree stores entries"))

StepLoad ==
  /\ T' = FromSnap(Ev.snap)
  /\ hasSnap' = TRUE /\ stale' = FALSE /\ gaps' = FALSE /\ every' = (IF Has("se") THEN Ev.se ELSE 1) /\ rpeak' = 0
  /\ cap0' = Ev.cap
  /\ now' = Ev.now
  /\ ents' = IF RangeOK(T') THEN Phys(T') ELSE {}
  /\ peak' = IF RangeOK(T') THEN Max(Count(T'), (Len(T'.nd) - Max(Ev.cap, 8)) \div 4) ELSE 0
  /\ Structure(T', peak', Ev.cap)

\* what every completed, in-contract call is checked for besides its own result
After(t, S) ==
  /\ V("OUTCOME", ~Has("obspanic") /\ ~Has("rdout"), "a look-up made right after the call (observation sweep / read through the returned handle) panicked")
  /\ (hasSnap /\ Has("snap") => /\ Structure(T', peak', cap0)
                 /\ V("REFINE", Refines(T', S, t), <<"live physical entries differ from the reference at", t>>))
  /\ (~hasSnap /\ Has("obs") => V("REFINE", ObsSet = Visible(S, t), <<"observed", ObsSet, "expected", Visible(S, t)>>))
  /\ (Has("cmp") => V("CMPLIVE", CmpLive(t), <<"an expired key was handed to comparison code at", t, Ev.cmp>>))

Unchanged == ents' = ents /\ now' = now

NewPeak == IF hasSnap /\ Has("snap") /\ RangeOK(Bind) THEN Max(peak, Count(Bind)) ELSE peak

OpOk ==
  CASE Ev.op = "ins" ->
         IF R!CanInsert(Ev.k, Ev.e, Ev.t)
         THEN /\ ents' = ents \cup {[k |-> Ev.k, e |-> Ev.e, v |-> Ev.v]} /\ now' = Ev.t
              /\ After(Ev.t, ents')
         ELSE Unchanged /\ Breach(<<"insert outside the contract", Ev.k, Ev.e, Ev.t, now>>)
    [] Ev.op = "bulk" ->         \* scale runs: insert(k, value k, expiration e, time t) for every k in lo..hi, observed as one call
         IF R!CanBulk(Ev.lo, Ev.hi, Ev.e, Ev.t)
         THEN /\ ents' = ents \cup R!BulkSet(Ev.lo, Ev.hi, Ev.e) /\ now' = Ev.t
              /\ After(Ev.t, ents')
         ELSE Unchanged /\ Breach(<<"bulk insert outside the contract", Ev.lo, Ev.hi, Ev.e, Ev.t, now>>)
    [] Ev.op \in {"lt", "le", "by", "get"} ->
         IF R!CanQuery(Ev.t)
         THEN /\ ents' = ents /\ now' = Ev.t
              /\ LET ref == CASE Ev.op = "lt" -> R!RefLT(Ev.t, Ev.p, Ev.d)
                              [] Ev.op = "le" -> R!RefLE(Ev.t, Ev.p, Ev.d)
                              [] Ev.op = "by" -> R!RefBy(Ev.t, Ev.p, Ev.d)
                              [] Ev.op = "get" -> R!RefGet(Ev.t, Ev.p)
                 IN V(IF Ev.op = "get" THEN "RES_GET" ELSE "RES_PRED", Ev.res = ref,
                      <<Ev.op, "t", Ev.t, "probe", Ev.p, "returned", Ev.res, "reference", ref>>)
              /\ After(Ev.t, ents')
         ELSE Unchanged /\ Breach(<<"time went backwards", Ev.t, now>>)
    [] Ev.op = "empty" ->
         /\ Unchanged
         /\ V("EMPTY", R!IsEmptyOK(Ev.res = 1), <<"is_empty", Ev.res, "with live entries", R!LiveAt(ents, now)>>)
         /\ After(now, ents)
    [] Ev.op = "clear" ->
         /\ ents' = {} /\ now' = MinTime
         /\ After(MinTime, {})
         /\ (hasSnap /\ Has("snap") => /\ V("CLEARED", RangeOK(T') /\ Phys(T') = {}, "entries stored after clear")
                        /\ V("POOLCLR", Len(T'.free) = Len(T'.nd) - 1, "clear did not return every slot to the free list"))
    [] Ev.op = "export" ->
         IF R!CanQuery(Ev.t)
         THEN /\ ents' = ents /\ now' = Ev.t
              /\ V("EXPORT", Ev.res = R!RefExport(Ev.t), <<"t", Ev.t, "exported", Ev.res, "reference", R!RefExport(Ev.t)>>)
              /\ LET n == IF hasSnap /\ ~stale THEN Count(T) ELSE Cardinality(ents)    \* no current snapshot: everything inserted since the last clear
                 IN V("EXPCAP", Ev.vcap <= 8 * n + 64, <<"capacity", Ev.vcap, "stored entries", n>>)
         ELSE Unchanged /\ Breach(<<"time went backwards", Ev.t, now>>)
    [] Ev.op = "exportn" ->      \* sizes driver: n live entries inserted into a fresh collection, then exported
         /\ Unchanged
         /\ V("EXPCAP", Ev.vcap <= 8 * Ev.n + 64, <<"capacity", Ev.vcap, "entries", Ev.n, Ev.order>>)
         /\ V("EXPORT", Ev.len = Ev.n /\ Ev.sorted = 1, <<"exported", Ev.len, "of", Ev.n, "sorted", Ev.sorted>>)
    [] OTHER -> Unchanged /\ Breach(<<"unknown op", Ev.op>>)

\* an injected callback panic left the call (C18): valid structure, contents before or after
OpUnwound ==
  LET t  == IF Has("t") THEN Ev.t ELSE now
      S0 == ents
      S1 == IF Ev.op = "ins" THEN ents \cup {[k |-> Ev.k, e |-> Ev.e, v |-> Ev.v]} ELSE ents
      isBefore == IF hasSnap /\ Has("snap") THEN Refines(T', S0, t) ELSE (Has("obs") /\ ObsSet = Visible(S0, t))
      isAfter  == IF hasSnap /\ Has("snap") THEN Refines(T', S1, t) ELSE (Has("obs") /\ ObsSet = Visible(S1, t))
  IN /\ now' = t
     /\ ents' = IF isBefore THEN S0 ELSE IF isAfter THEN S1
                ELSE IF hasSnap /\ RangeOK(T') THEN Phys(T') ELSE S0
     /\ V("TORN", isBefore \/ isAfter, <<"after a panic in callback", Ev.inj, "of", Ev.op, "contents are neither before nor after">>)
     /\ (hasSnap /\ Has("snap") => /\ V("TORNWF", WellFormed(T'), "tree invalid after a callback panic")
                    /\ V("TORNPOOL", PoolOK(T'), "slot accounting broken after a callback panic"))
     /\ (Has("cmp") => V("CMPLIVE", CmpLive(t), <<"an expired key was handed to comparison code at", t, Ev.cmp>>))

\* EXACT mode: what the layer-1 model (KeyExpTree over RBArena) does for this call, slot for slot
ModelNext ==
  CASE Ev.op = "ins" -> IF Ev.e >= Ev.t THEN XInsert(T, Ev.k, Ev.v, Ev.e, Ev.t)[1] ELSE T
    [] Ev.op \in {"lt", "le", "by", "get"} -> XQuery(T, Ev.t, Ev.p, 0, Ev.op)[1]
    [] Ev.op = "clear" -> Clear(T)
    [] OTHER -> T
SameArena(A, B) == A.root = B.root /\ A.ucap = B.ucap /\ Len(A.nd) = Len(B.nd) /\ Len(A.free) = Len(B.free)
                   /\ (\A i \in 1..Len(A.nd) : A.nd[i] = B.nd[i]) /\ (\A i \in 1..Len(A.free) : A.free[i] = B.free[i])
DriftCheck ==
  hasSnap /\ Has("snap") /\ ~stale /\ Ev.out = "ok" /\ Ev.op \notin {"export", "bulk"} /\ WellFormed(T) /\ PoolOK(T)
     => Drift(SameArena(ModelNext, T'), Ev.op)

StepOp ==
  /\ T' = Bind
  /\ hasSnap' = hasSnap /\ cap0' = cap0
  /\ stale' = (hasSnap /\ ~Has("snap") /\ Ev.op # "export")
  /\ gaps' = (gaps \/ (hasSnap /\ ~Has("snap") /\ Ev.op # "export"))
  /\ peak' = NewPeak /\ every' = every
  /\ DriftCheck
  \* binding: an instance that ships every snapshot must ship it with every call that returned
  /\ (hasSnap /\ every = 1 /\ ~Has("snap") /\ ~Has("arena") /\ Ev.op \notin {"export", "exportn"} /\ Ev.out \in {"ok", "unwound"}
        => Breach(<<"snapshot missing: the structural predicates are unbound", Ev.op>>))
  /\ CASE Outcome = "ok" -> OpOk
       [] Outcome = "unwound" -> OpUnwound
       [] OTHER -> /\ Unchanged     \* panic / aborted / timeout: no behaviour of the specification
                   /\ V("OUTCOME", FALSE, <<Ev.op, "ended with", Outcome, IF Has("msg") THEN Ev.msg ELSE "">>)
  /\ rpeak' = Max(rpeak, Cardinality(ents'))
  \* an arena too large to be shipped is reported by its size: judged against the reference's peak
  /\ (Has("arena") => V("GROWTH", Ev.arena.slots <= 4 * (rpeak' + 1) + Max(cap0, 8),
                            <<"arena slots", Ev.arena.slots, "peak population (reference)", rpeak'>>))

Step ==
  /\ l <= Len(Rec)
  /\ l' = l + 1
  /\ CASE Ev.ev = "reset" -> StepReset
       [] Ev.ev = "load"  -> StepLoad
       [] Ev.ev = "op"    -> StepOp
       [] OTHER -> UNCHANGED <<ents, now, T, hasSnap, peak, cap0, stale, gaps, every, rpeak>> /\ Breach(<<"unknown event", Ev.ev>>)

Init == l = 1 /\ ents = {} /\ now = MinTime /\ T = NoTree /\ hasSnap = FALSE /\ peak = 0 /\ cap0 = 0 /\ stale = FALSE /\ gaps = FALSE /\ every = 1 /\ rpeak = 0

Spec == Init /\ [][Step]_<<l, ents, now, T, hasSnap, peak, cap0, stale, gaps, every, rpeak>>

\* every event was consumed
Accepted ==
  IF TLCGet("stats").diameter - 1 = Len(Rec) THEN PrintT(<<"ACCEPTED", Len(Rec)>>)
  ELSE Print(<<"REJECTED", TLCGet("stats").diameter, Len(Rec)>>, FALSE)
=============================================================================
