------------------------------ MODULE MCKeyList ------------------------------
(***************************************************************************)
(* Layer 1 model of KeyExpList (src/key/list.rs): a vector sorted by key    *)
(* plus the cached earliest expiration `min_exp`.  clear_expired(t) is      *)
(* skipped while min_exp > t; otherwise retain(e > t) and recompute.        *)
(* Decides on the specification (C13, list part of C07 / C20 / C12):        *)
(*   MinExpOK    min_exp never exceeds the earliest stored expiration, so a *)
(*               skipped purge never leaves an expired entry observable     *)
(*   Refinement  every look-up = KeyExpRef; a purge never drops a live one  *)
(*   every key handed to the binary search's comparison is live (C20)       *)
(* The binary searches are std code; they are modelled by their contract    *)
(* (position of the first element not below the probe in a sorted vector).  *)
(***************************************************************************)
EXTENDS Integers, Sequences, FiniteSets, TLC

CONSTANTS Keys, MaxTime,
          Faults      \* TRUE: explore a panic of the expiration accessor inside the retain sweep (C18)
VARIABLES buf, minExp, now, ents
vars == <<buf, minExp, now, ents>>

R == INSTANCE KeyExpRef
NONE == -7
NoVal == -999999
MaxExp == MaxTime + 5                 \* E::max_expiration()
Times == 0..MaxTime
Exps == 0..(MaxTime + 1)
MaxK == CHOOSE k \in Keys : \A j \in Keys : j <= k
Probes == 0..(MaxK + 1)
Thetas == 1..(2 * MaxK + 1)
Val(k, e) == 1000 * k + 10 * e + 9
Min2(a, b) == IF a < b THEN a ELSE b

RECURSIVE Retain(_, _)
Retain(s, t) == IF s = <<>> THEN <<>> ELSE (IF Head(s).e > t THEN <<Head(s)>> ELSE <<>>) \o Retain(Tail(s), t)
RECURSIVE MinE(_)
MinE(s) == IF s = <<>> THEN MaxExp ELSE Min2(Head(s).e, MinE(Tail(s)))

\* clear_expired: returns <<buffer, min_exp>>
ClearExpired(b, mn, t) == IF mn > t THEN <<b, mn>> ELSE LET b2 == Retain(b, t) IN <<b2, MinE(b2)>>

\* binary_search on the (purged) buffer: number of elements with key below the probe
LowerBound(b, k) == Cardinality({i \in 1..Len(b) : b[i].k < k})
Found(b, k) == \E i \in 1..Len(b) : b[i].k = k
InsertAt(b, i, x) == SubSeq(b, 1, i) \o <<x>> \o SubSeq(b, i + 1, Len(b))

Sorted(b) == \A i \in 1..(Len(b) - 1) : b[i].k < b[i + 1].k
AllLive(b, t) == \A i \in 1..Len(b) : b[i].e > t      \* what the comparison code gets to see (C20)

Init == buf = <<>> /\ minExp = MaxExp /\ now = 0 /\ ents = {}

DoInsert(k, e, t) ==
  /\ R!CanInsert(k, e, t)
  /\ LET c == ClearExpired(buf, minExp, t)
         x == [k |-> k, e |-> e, v |-> Val(k, e)]
     IN /\ Assert(AllLive(c[1], t), <<"C20: expired key in the searched buffer", t>>)
        /\ buf' = InsertAt(c[1], LowerBound(c[1], k), x)
        /\ minExp' = Min2(c[2], e)
  /\ R!Insert(k, e, Val(k, e), t)

Lookup(b, mode, p, d) ==
  CASE mode = "get" -> IF Found(b, p) THEN b[LowerBound(b, p) + 1].v ELSE NoVal
    [] mode = "lt"  -> IF LowerBound(b, p) > 0 THEN b[LowerBound(b, p)].v ELSE d
    [] mode = "le"  -> IF Found(b, p) THEN b[LowerBound(b, p) + 1].v
                       ELSE IF LowerBound(b, p) > 0 THEN b[LowerBound(b, p)].v ELSE d
    [] mode = "by"  -> LET n == Cardinality({i \in 1..Len(b) : 2 * b[i].k <= p}) IN IF n > 0 THEN b[n].v ELSE d

DoQuery(mode, p, t) ==
  /\ R!CanQuery(t)
  /\ LET c == ClearExpired(buf, minExp, t)
         ref == CASE mode = "lt" -> R!RefLT(t, p, NONE) [] mode = "le" -> R!RefLE(t, p, NONE)
                  [] mode = "by" -> R!RefBy(t, p, NONE) [] mode = "get" -> R!RefGet(t, p)
     IN /\ Assert(AllLive(c[1], t), <<"C20: expired key in the searched buffer", t>>)
        /\ Assert(Lookup(c[1], mode, p, NONE) = ref, <<"list result", mode, p, t, Lookup(c[1], mode, p, NONE), ref>>)
        /\ buf' = c[1] /\ minExp' = c[2]
  /\ R!Query(t)

\* C18: clear_expired calls ExpiredKey::expiration once per element inside Vec::retain.  If the
\* j-th call panics, retain's drop guard keeps the elements it has not looked at yet: the buffer is
\* the kept part of the first j-1 elements followed by the untouched rest; min_exp is written only
\* after the sweep, so it keeps its old (lower) value.  (std's documented behaviour, an assumption.)
SweepPanic(b, t, j) == Retain(SubSeq(b, 1, j - 1), t) \o SubSeq(b, j, Len(b))
DoSweepPanic(t) ==
  /\ Faults
  /\ R!CanQuery(t)
  /\ minExp <= t                              \* otherwise the sweep is skipped and nothing is called
  /\ \E j \in 1..Len(buf) : buf' = SweepPanic(buf, t, j)
  /\ minExp' = minExp
  /\ R!Query(t)

DoClear == buf' = <<>> /\ minExp' = MaxExp /\ R!Clear

Next == \/ \E k \in Keys, e \in Exps, t \in Times : DoInsert(k, e, t)
        \/ \E p \in Probes, t \in Times : DoQuery("lt", p, t) \/ DoQuery("le", p, t) \/ DoQuery("get", p, t)
        \/ \E th \in Thetas, t \in Times : DoQuery("by", th, t)
        \/ DoClear
        \/ \E t \in Times : DoSweepPanic(t)

Spec == Init /\ [][Next]_vars
View == <<buf, minExp, now>>

Entries(b) == {b[i] : i \in 1..Len(b)}
MinExpOK == minExp <= MinE(buf) /\ Sorted(buf)
Refinement == /\ R!LiveAt(Entries(buf), now) = R!LiveAt(ents, now)
              /\ Entries(buf) \subseteq ents
              \* export (C07): clear_expired then the values in buffer order
              /\ \A t \in now..MaxTime : LET c == ClearExpired(buf, minExp, t) IN
                     [i \in 1..Len(c[1]) |-> c[1][i].v] = R!RefExport(t)
=============================================================================
