CONSTANTS
  Keys = {1, 2, 3}
  MaxTime = 3
  Cap0 = 0
  Faults = FALSE
  ExportMode = "asCoded"
  CapMode = "fixed"
  GetMode = "get"
  Emit = FALSE
INIT Init
NEXT Next
VIEW View
INVARIANTS Structure Refinement ArenaBound IsEmptyOK ExportOK EmitCover
CHECK_DEADLOCK FALSE
