--------------------------- MODULE SegLayoutSym ---------------------------
(***************************************************************************)
(* C14, the arithmetic part, for EVERY domain length up to 2^62 and every   *)
(* offset - symbolically, with Apalache (SMT), not on a grid.               *)
(*                                                                          *)
(* src/seg/layout.rs computes p = ceil(log2 len) with ilog2; here p is      *)
(* characterised without recursion: p is the unique exponent with           *)
(* 2^(p-1) < len <= 2^p.  Pow2 is a table of constants, so every formula    *)
(* below is linear integer arithmetic with division by constants.           *)
(* State = one arbitrary (len, o1, o2, j) chosen in Init; the invariants    *)
(* checked in that initial state are therefore universally quantified.      *)
(*   apalache-mc check --init=Init --next=Next --inv=Inv --length=0         *)
(***************************************************************************)
EXTENDS Integers

VARIABLES
  \* @type: Int;
  len,
  \* @type: Int;
  p,
  \* @type: Int;
  o1,
  \* @type: Int;
  o2,
  \* @type: Int;
  j,
  \* @type: Int;
  small,
  \* @type: Int;
  ps

\* @type: Int => Int;
Pow2(n) ==
  IF n = 0 THEN 1 ELSE IF n = 1 THEN 2 ELSE IF n = 2 THEN 4 ELSE IF n = 3 THEN 8 ELSE IF n = 4 THEN 16
  ELSE IF n = 5 THEN 32 ELSE IF n = 6 THEN 64 ELSE IF n = 7 THEN 128 ELSE IF n = 8 THEN 256 ELSE IF n = 9 THEN 512
  ELSE IF n = 10 THEN 1024 ELSE IF n = 11 THEN 2048 ELSE IF n = 12 THEN 4096 ELSE IF n = 13 THEN 8192
  ELSE IF n = 14 THEN 16384 ELSE IF n = 15 THEN 32768 ELSE IF n = 16 THEN 65536 ELSE IF n = 17 THEN 131072
  ELSE IF n = 18 THEN 262144 ELSE IF n = 19 THEN 524288 ELSE IF n = 20 THEN 1048576 ELSE IF n = 21 THEN 2097152
  ELSE IF n = 22 THEN 4194304 ELSE IF n = 23 THEN 8388608 ELSE IF n = 24 THEN 16777216 ELSE IF n = 25 THEN 33554432
  ELSE IF n = 26 THEN 67108864 ELSE IF n = 27 THEN 134217728 ELSE IF n = 28 THEN 268435456 ELSE IF n = 29 THEN 536870912
  ELSE IF n = 30 THEN 1073741824 ELSE IF n = 31 THEN 2147483648 ELSE IF n = 32 THEN 4294967296
  ELSE IF n = 33 THEN 8589934592 ELSE IF n = 34 THEN 17179869184 ELSE IF n = 35 THEN 34359738368
  ELSE IF n = 36 THEN 68719476736 ELSE IF n = 37 THEN 137438953472 ELSE IF n = 38 THEN 274877906944
  ELSE IF n = 39 THEN 549755813888 ELSE IF n = 40 THEN 1099511627776 ELSE IF n = 41 THEN 2199023255552
  ELSE IF n = 42 THEN 4398046511104 ELSE IF n = 43 THEN 8796093022208 ELSE IF n = 44 THEN 17592186044416
  ELSE IF n = 45 THEN 35184372088832 ELSE IF n = 46 THEN 70368744177664 ELSE IF n = 47 THEN 140737488355328
  ELSE IF n = 48 THEN 281474976710656 ELSE IF n = 49 THEN 562949953421312 ELSE IF n = 50 THEN 1125899906842624
  ELSE IF n = 51 THEN 2251799813685248 ELSE IF n = 52 THEN 4503599627370496 ELSE IF n = 53 THEN 9007199254740992
  ELSE IF n = 54 THEN 18014398509481984 ELSE IF n = 55 THEN 36028797018963968 ELSE IF n = 56 THEN 72057594037927936
  ELSE IF n = 57 THEN 144115188075855872 ELSE IF n = 58 THEN 288230376151711744 ELSE IF n = 59 THEN 576460752303423488
  ELSE IF n = 60 THEN 1152921504606846976 ELSE IF n = 61 THEN 2305843009213693952 ELSE 4611686018427387904

\* Layout::new: p = (len-1).ilog2() + 1, i.e. 2^(p-1) < len <= 2^p   (len >= 2)
IsP(l, q) == q \in 1..62 /\ Pow2(q - 1) < l /\ l <= Pow2(q)

\* the scale used by the code and the bucket of an offset
Scale == p - 5
\* @type: Int => Int;
Bucket(o) == o \div Pow2(Scale)

Init ==
  /\ len \in 17..4611686018427387904
  /\ p \in 1..62 /\ IsP(len, p)
  /\ o1 \in 0..4611686018427387904 /\ o2 \in 0..4611686018427387904
  /\ o1 <= o2 /\ o2 <= len - 1
  /\ j \in 0..62
  /\ small = 2 /\ ps = 1

Next == UNCHANGED <<len, p, o1, o2, j, small, ps>>

\* more than 16 points: a tree is built (p >= 5), buckets in range, monotone, least width
BuiltOK   == p >= 5
EndsOK    == Bucket(0) = 0 /\ Bucket(len - 1) < 32 /\ Bucket(len - 1) >= 16
MonotoneOK == Bucket(o1) <= Bucket(o2)
\* 32 buckets of width 2^Scale cover the domain, and no smaller power of two does
WidthOK   == 32 * Pow2(Scale) >= len /\ (Scale >= 1 => 32 * Pow2(Scale - 1) < len)
\* storage: count = Bucket(hi) + 32 chunks backs every place up to the leaf of hi
CountOK   == Bucket(len - 1) + 32 <= 63
\* scaling lemma used by the harness for wide domains: shifting by j <= Scale bits keeps buckets
ScalingOK == j <= Scale =>
               LET len2 == ((len - 1) \div Pow2(j)) + 1 IN
               /\ IsP(len2, p - j)
               /\ (o2 \div Pow2(j)) \div Pow2(Scale - j) = Bucket(o2)

Inv == BuiltOK /\ EndsOK /\ MonotoneOK /\ WidthOK /\ CountOK /\ ScalingOK

\* the complement: 16 or fewer points never get p >= 5
InitSmall == small \in 2..16 /\ ps \in 1..62 /\ IsP(small, ps) /\ len = 17 /\ p = 5 /\ o1 = 0 /\ o2 = 0 /\ j = 0
NextSmall == UNCHANGED <<len, p, o1, o2, j, small, ps>>
InvSmall == ps < 5
=============================================================================
