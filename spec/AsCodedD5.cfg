CONSTANTS
  Keys = {1, 2, 3, 4, 5}
  MaxTime = 1
  Cap0 = 0
  Faults = FALSE
  CapMode = "asCoded"
  GetMode = "get"
  Emit = FALSE
INIT Init
NEXT Next
VIEW View
INVARIANTS Structure Refinement ArenaBound IsEmptyOK ExportOK EmitCover
CHECK_DEADLOCK FALSE
