------------------------------ MODULE RBShapes ------------------------------
(***************************************************************************)
(* Every valid red-black tree with a given number of nodes, as an arena    *)
(* state of RBArena - the initial states of the one-step ("inductive")     *)
(* models IndOrd and IndKey.  A shape is a nested tuple <<c, left, right>> *)
(* (<<>> = missing child); Shapes(n, h, pr) is the set of shapes with n    *)
(* nodes and black height h whose root may be red only if pr is FALSE.     *)
(* The root of a whole tree may be red (the library leaves it red in some  *)
(* cases, and WellFormed does not ask for a black root).                   *)
(* The table is built bottom-up (TLC does not memoise recursive operators).*)
(***************************************************************************)
EXTENDS RBArena

MaxBH == 5            \* black height of a tree with <= 62 nodes is <= 5

ShapeKey(n, h, pr) == <<n, h, pr>>

\* (TLC's UNION of large sets of deep tuples is quadratic - it tests membership by linear search -,
\* a fold of binary unions is normalised by sorting)
RECURSIVE Splits(_, _, _, _, _, _)
Splits(tab, c, hh, n, nl, acc) ==       \* all splits nl + nr = n - 1 of the children
  IF nl > n - 1 THEN acc
  ELSE Splits(tab, c, hh, n, nl + 1,
              acc \cup {<<c, L, R>> : L \in tab[ShapeKey(nl, hh, c = Red)], R \in tab[ShapeKey(n - 1 - nl, hh, c = Red)]})

\* shapes with n >= 1 nodes from a table that knows all smaller n
ShapesFrom(tab, n, h, pr) ==
  (IF h = 0 THEN {} ELSE Splits(tab, Black, h - 1, n, 0, {}))
  \cup (IF pr THEN {} ELSE Splits(tab, Red, h, n, 0, {}))

RECURSIVE BuildTab(_, _, _)
BuildTab(tab, n, maxN) ==
  IF n > maxN THEN tab
  ELSE BuildTab(TLCEval(tab @@ [x \in {ShapeKey(n, h, pr) : h \in 0..MaxBH, pr \in BOOLEAN}
                                  |-> TLCEval(ShapesFrom(tab, n, x[2], x[3]))]), n + 1, maxN)

Tab0 == [x \in {ShapeKey(0, h, pr) : h \in 0..MaxBH, pr \in BOOLEAN} |-> IF x[2] = 0 THEN {<<>>} ELSE {}]
ShapeTab(maxN) == BuildTab(Tab0, 1, maxN)

\* all shapes with n nodes (root red or black)
RECURSIVE CupH(_, _, _)
CupH(tab, n, h) == IF h > MaxBH THEN {} ELSE tab[ShapeKey(n, h, FALSE)] \cup CupH(tab, n, h + 1)
ShapesOfSize(tab, n) == CupH(tab, n, 0)

RECURSIVE Size(_)
Size(s) == IF s = <<>> THEN 0 ELSE 1 + Size(s[2]) + Size(s[3])

(***************************************************************************)
(* Arena of a shape: slots 1..n in pre-order; the key of a node is its     *)
(* in-order rank 1..n (Relabel substitutes keys, values, expirations).     *)
(***************************************************************************)
RECURSIVE Slots(_, _, _, _)
Slots(s, slot, parent, base) ==
  IF s = <<>> THEN {}
  ELSE LET ls   == Size(s[2])
           rank == base + ls + 1
           lc   == IF s[2] = <<>> THEN E ELSE slot + 1
           rc   == IF s[3] = <<>> THEN E ELSE slot + 1 + ls
       IN {<<slot, [p |-> parent, l |-> lc, r |-> rc, c |-> s[1], k |-> rank, v |-> 0, e |-> 0]>>}
          \cup Slots(s[2], slot + 1, slot, base)
          \cup Slots(s[3], slot + 1 + ls, slot, rank)

\* nfree free slots behind the tree, free-list capacity ucap
Arena(s, nfree, ucap) ==
  LET n  == Size(s)
      S  == Slots(s, 1, E, 0)
  IN [root |-> IF n = 0 THEN E ELSE 1,
      nd   |-> [i \in 1..(1 + n + nfree) |->
                  IF i = 1 \/ i > n + 1 THEN DefaultNode ELSE (CHOOSE x \in S : x[1] = i - 1)[2]],
      free |-> [j \in 1..nfree |-> n + nfree + 1 - j],
      ucap |-> ucap]

\* keys, values and expirations as functions of the in-order rank
Relabel(TT, n, KeyOf(_), ValOf(_), ExpOf(_)) ==
  [TT EXCEPT !.nd = [i \in 1..Len(TT.nd) |->
      IF i >= 2 /\ i <= n + 1
      THEN [TT.nd[i] EXCEPT !.k = KeyOf(TT.nd[i].k), !.v = ValOf(TT.nd[i].k), !.e = ExpOf(TT.nd[i].k)]
      ELSE TT.nd[i]]]

(***************************************************************************)
(* Text form of an arena, identical to the "snap" field of a trace event,  *)
(* so that the harness parses both with the same code.                     *)
(***************************************************************************)
RECURSIVE JoinInts(_, _)
JoinInts(s, i) == IF i > Len(s) THEN "" ELSE (IF i > 1 THEN "," ELSE "") \o ToString(s[i]) \o JoinInts(s, i + 1)
NodeTxt(x) == "[" \o ToString(x.p) \o "," \o ToString(x.l) \o "," \o ToString(x.r) \o "," \o ToString(x.c) \o ","
                  \o ToString(x.k) \o "," \o ToString(x.v) \o "," \o ToString(x.e) \o "]"
RECURSIVE JoinNodes(_, _)
JoinNodes(s, i) == IF i > Len(s) THEN "" ELSE (IF i > 1 THEN "," ELSE "") \o NodeTxt(s[i]) \o JoinNodes(s, i + 1)
SnapTxt(TT) == "\"snap\":{\"root\":" \o ToString(TT.root) \o ",\"nd\":[" \o JoinNodes(TT.nd, 1) \o "],\"free\":["
               \o JoinInts(TT.free, 1) \o "],\"ucap\":" \o ToString(TT.ucap) \o "}"
=============================================================================
