------------------------------ MODULE TraceOrd ------------------------------
(***************************************************************************)
(* Layer 2: validation of a trace recorded from the real MapTree, SetTree,  *)
(* MapList or SetList against the reference semantics OrdRef (layer 0) and  *)
(* the structural invariants of RBArena (layer 1).  Deterministic: one      *)
(* successor per event; violated predicates are reported, not fatal.        *)
(***************************************************************************)
EXTENDS RBArena, Json, IOUtils

VARIABLES l,        \* position in the trace
          m, des,   \* layer-0 state: contents and handle designation
          aged,     \* handles that have survived at least one insertion since they were issued
          T,        \* physical state bound to the snapshot (trees)
          hasSnap, isSet,
          peak, cap0,
          stale,    \* T is older than the previous event (that event shipped no snapshot)
          gaps,     \* some event since reset shipped no snapshot: the peak population is unknown
          every,    \* the instance ships its snapshot with every n-th call (1 = always)
          rpeak     \* peak population according to the reference (an upper bound of the physical peak)

vars == <<l, m, des, aged, T, hasSnap, isSet, peak, cap0, stale, gaps, every, rpeak>>

R == INSTANCE OrdRef

Rec == ndJsonDeserialize(IOEnv.TRACE)
Ev  == Rec[l]
Has(f) == f \in DOMAIN Ev

V(tag, cond, info) == IF cond THEN TRUE ELSE PrintT("VIOL " \o ToJson(<<tag, l, info>>))
Breach(info)       == PrintT("BREACH " \o ToJson(<<l, info>>))
\* diagnostic, never a verdict: the real arena differs from the layer-1 model's next state
Drift(cond, info)  == IF cond THEN TRUE ELSE PrintT("DRIFT " \o ToJson(<<l, info>>))

FromSnap(s) ==
  [root |-> s.root,
   nd   |-> [i \in 1..Len(s.nd) |-> [p |-> s.nd[i][1], l |-> s.nd[i][2], r |-> s.nd[i][3], c |-> s.nd[i][4],
                                     k |-> s.nd[i][5], v |-> s.nd[i][6], e |-> s.nd[i][7]]],
   free |-> s.free, ucap |-> s.ucap]
NoTree == [root |-> E, nd |-> <<>>, free |-> <<>>, ucap |-> 0]
NoVal == -999999

Graph(f) == {<<k, f[k]>> : k \in DOMAIN f}
FromGraph(G) == [k \in {kv[1] : kv \in G} |-> (CHOOSE kv \in G : kv[1] = k)[2]]

GrowthOK(TT, pk, c0) == Len(TT.nd) <= 4 * (pk + 1) + Max(c0, 8)
Structure(TT, pk, c0) ==
  /\ V("WF", WellFormed(TT), "snapshot is not a valid red-black search tree")
  /\ V("POOL", PoolOK(TT), "slots are not partitioned into sentinel / tree / free list")
  /\ V("GROWTH", GrowthOK(TT, IF gaps THEN Max(pk, rpeak) ELSE pk, c0), <<"arena slots", Len(TT.nd), "peak stored", IF gaps THEN Max(pk, rpeak) ELSE pk>>)

\* the stored entries are exactly the reference's: nothing lost, nothing altered, nothing twice
Refines(TT, f) == RangeOK(TT) /\ Contents(TT) = Graph(f) /\ Count(TT) = Cardinality(DOMAIN f)
\* lists: get_value of every key of the universe + is_empty; the returned value must carry its key
ObsOK(f) == /\ {<<Ev.obs[i][1], Ev.obs[i][3]>> : i \in 1..Len(Ev.obs)} = Graph(f)
            /\ \A i \in 1..Len(Ev.obs) : Ev.obs[i][2] = Ev.obs[i][1]
            /\ (Ev.oe = 1) <=> (DOMAIN f = {})

Rank(k) == Cardinality({x \in R!Dom : x < k})      \* position of key k in a sorted list

\* the handle h returned for key k reads back the entry of k; (trees) slot h holds it
\* tagR: tag for the read-back, differs when the handle is one that was held over insertions
ReadBack(k, tagR) ==
  /\ V(tagR, Has("rv") /\ Ev.rv = m[k] /\ (isSet => Ev.rk = k),
       <<"handle for key", k, "reads key", IF Has("rk") THEN Ev.rk ELSE "?", "value", IF Has("rv") THEN Ev.rv ELSE "?", "expected", m[k]>>)

\* (trees) every issued handle is the slot holding its designated entry
SlotsOK(TT, f, d) == RangeOK(TT) /\ \A h \in DOMAIN d :
    d[h] \in DOMAIN f => h \in Reach(TT) /\ TT.nd[h + 1].k = d[h] /\ TT.nd[h + 1].v = f[d[h]]

\* a handle-returning query: want = the key that must be designated, or "none"
HandleResult(hasKey, key, tagH) ==
  IF ~hasKey
  THEN /\ V(tagH, Ev.res = R!NoHandle, <<Ev.op, "returned", Ev.res, "must return the empty sentinel">>)
       /\ des' = des /\ aged' = aged
  ELSE /\ V(tagH, Ev.res # R!NoHandle, <<Ev.op, "returned the empty sentinel, expected a handle for key", key>>)
       /\ IF Ev.res # R!NoHandle
          THEN /\ V(tagH, Ev.res \notin DOMAIN des \/ des[Ev.res] = key \/ des[Ev.res] \notin R!Dom,
                    <<"handle", Ev.res, "already designates key", IF Ev.res \in DOMAIN des THEN des[Ev.res] ELSE -1, "now returned for", key>>)
               /\ ReadBack(key, tagH)
               /\ (~hasSnap => V("HPOS", Ev.res = Rank(key), <<"list handle", Ev.res, "is not the position of key", key>>))
               /\ des' = R!With(des, Ev.res, key)
               /\ aged' = aged \ {Ev.res}
          ELSE des' = des /\ aged' = aged

After3(f, tagS, tagR) ==
  /\ V("OUTCOME", ~Has("obspanic") /\ ~Has("rdout"), "a look-up made right after the call (observation sweep / read through the returned handle) panicked")
  /\ (hasSnap /\ Has("snap") => /\ Structure(T', peak', cap0)
                 /\ V(tagR, Refines(T', f), <<"stored entries", IF RangeOK(T') THEN Contents(T') ELSE "unreadable", "reference", Graph(f)>>)
                 /\ V(tagS, SlotsOK(T', f, des'), <<"an issued handle no longer is the slot of its entry", des'>>))
  /\ (~hasSnap /\ Has("obs") => V(tagR, ObsOK(f), <<"observed", Ev.obs, Ev.oe, "reference", Graph(f)>>))

After2(f, tagS) == After3(f, tagS, "REFINE")
After(f) == After2(f, "HSLOT")

Bind == IF Has("snap") THEN FromSnap(Ev.snap) ELSE T
NewPeak == IF hasSnap /\ Has("snap") /\ RangeOK(Bind) THEN Max(peak, Count(Bind)) ELSE peak

Same == m' = m /\ des' = des /\ aged' = aged

OpOk ==
  CASE Ev.op = "ins" ->
         IF R!CanInsert(Ev.k)
         THEN /\ m' = R!With(m, Ev.k, Ev.v)
              /\ des' = IF hasSnap THEN des ELSE R!Empty
              /\ aged' = IF hasSnap THEN DOMAIN des ELSE {}
              /\ After2(m', "STABLE")
         ELSE Same /\ Breach(<<"insert of a present key", Ev.k>>)
    [] Ev.op = "bulk" ->        \* scale runs: insert of every key lo, lo + step, .. <= hi, observed as one call
         IF R!CanBulk(Ev.lo, Ev.hi, Ev.step)
         THEN /\ m' = R!BulkMap(Ev.lo, Ev.hi, Ev.step, Ev.vm, Ev.va)
              /\ des' = IF hasSnap THEN des ELSE R!Empty
              /\ aged' = IF hasSnap THEN DOMAIN des ELSE {}
              /\ After2(m', "STABLE")
         ELSE Same /\ Breach(<<"bulk insert of present keys", Ev.lo, Ev.hi, Ev.step>>)
    [] Ev.op = "bulkdel" ->     \* scale runs: delete of every key lo, lo + step, .. <= hi, observed as one call
         /\ m' = R!BulkWithout(Ev.lo, Ev.hi, Ev.step) /\ des' = R!Empty /\ aged' = {}
         /\ After(m')
    [] Ev.op = "del" ->
         /\ m' = R!Without(m, Ev.k) /\ des' = R!Empty /\ aged' = {}
         /\ After(m')
    [] Ev.op = "get" ->
         /\ Same
         /\ V("RES_GET", Ev.res = R!RefGet(Ev.k) /\ (Ev.k \in R!Dom /\ isSet => Ev.rk = Ev.k),
              <<"get", Ev.k, "returned", Ev.res, "key", Ev.rk, "reference", R!RefGet(Ev.k)>>)
         /\ After(m)
    [] Ev.op = "empty" ->
         /\ Same
         /\ V("EMPTY", (Ev.res = 1) <=> R!RefIsEmpty, <<"is_empty", Ev.res, "contents", Graph(m)>>)
         /\ After(m)
    [] Ev.op = "fil" ->
         /\ m' = m
         /\ HandleResult(R!HasPred(Ev.p), IF R!HasPred(Ev.p) THEN R!Pred(Ev.p) ELSE 0, "HANDLE")
         /\ After(m)
    [] Ev.op = "filby" ->
         /\ m' = m
         /\ HandleResult(R!HasPredBy(Ev.p), IF R!HasPredBy(Ev.p) THEN R!PredBy(Ev.p) ELSE 0, "HANDLE")
         /\ After(m)
    [] Ev.op \in {"after", "before"} ->
         IF R!Issued(Ev.h)
         THEN LET k == des[Ev.h]
                  has == IF Ev.op = "after" THEN R!HasNext(k) ELSE R!HasPrev(k)
                  nk == IF ~has THEN 0 ELSE IF Ev.op = "after" THEN R!NextKey(k) ELSE R!PrevKey(k)
              IN /\ m' = m
                 /\ HandleResult(has, nk, "STEP")
                 /\ After(m)
         ELSE Same /\ Breach(<<"neighbour step through a handle that was not issued", Ev.h>>)
    [] Ev.op = "read" ->
         IF R!Issued(Ev.h)
         THEN /\ Same
              /\ V(IF Ev.h \in aged THEN "HSTALE" ELSE "HREAD",
                   Ev.res = m[des[Ev.h]] /\ (isSet => Ev.rk = des[Ev.h]),
                   <<"handle", Ev.h, "for key", des[Ev.h], "reads key", Ev.rk, "value", Ev.res, "expected", m[des[Ev.h]]>>)
              /\ After(m)
         ELSE Same /\ Breach(<<"read through a handle that was not issued", Ev.h>>)
    [] Ev.op = "write" ->
         IF R!Issued(Ev.h)
         THEN /\ m' = R!With(m, des[Ev.h], Ev.v) /\ des' = des /\ aged' = aged
              /\ After3(m', "HSLOT", "HEFFECT")
         ELSE Same /\ Breach(<<"write through a handle that was not issued", Ev.h>>)
    [] Ev.op = "delh" ->
         IF R!Issued(Ev.h)
         THEN /\ m' = R!Without(m, des[Ev.h]) /\ des' = R!Empty /\ aged' = {}
              /\ After3(m', "HSLOT", "HEFFECT")
         ELSE Same /\ Breach(<<"delete through a handle that was not issued", Ev.h>>)
    [] Ev.op = "clear" ->
         /\ m' = R!Empty /\ des' = R!Empty /\ aged' = {}
         /\ After(m')
         /\ (hasSnap /\ Has("snap") => /\ V("CLEARED", RangeOK(T') /\ Contents(T') = {}, "entries stored after clear")
                        /\ V("POOLCLR", Len(T'.free) = Len(T'.nd) - 1, "clear did not return every slot to the free list"))
    [] Ev.op = "drop" ->        \* the instance was dropped (instance-counting payload): no payload instance may be left
         /\ Same                \* behind (lost), nor more be dropped than were ever made (dropped twice)
         /\ V("DROPS", Ev.residue = 0, <<"payload instances left after dropping the collection", Ev.residue>>)
    [] OTHER -> Same /\ Breach(<<"unknown op", Ev.op>>)

\* an injected callback panic left the call (C18)
OpUnwound ==
  LET f0 == m
      f1 == CASE Ev.op = "ins" /\ Ev.k \notin R!Dom -> R!With(m, Ev.k, Ev.v)
              [] Ev.op = "del" -> R!Without(m, Ev.k)
              [] OTHER -> m
      isBefore == IF hasSnap THEN Refines(T', f0) ELSE (Has("obs") /\ ObsOK(f0))
      isAfter  == IF hasSnap THEN Refines(T', f1) ELSE (Has("obs") /\ ObsOK(f1))
  IN /\ m' = IF isBefore THEN f0 ELSE IF isAfter THEN f1
             ELSE IF hasSnap /\ RangeOK(T') THEN FromGraph(Contents(T')) ELSE f0
     \* a look-up that unwound changed nothing: handles stay issued; a mutation that unwound ends them
     /\ des' = IF Ev.op \in {"get", "fil", "filby"} THEN des ELSE R!Empty
     /\ aged' = IF Ev.op \in {"get", "fil", "filby"} THEN aged ELSE {}
     /\ V("TORN", isBefore \/ isAfter, <<"after a panic in callback", Ev.inj, "of", Ev.op, "contents are neither before nor after">>)
     /\ (hasSnap /\ Has("snap") => /\ V("TORNWF", WellFormed(T'), "tree invalid after a callback panic")
                    /\ V("TORNPOOL", PoolOK(T'), "slot accounting broken after a callback panic"))

\* EXACT mode: what the layer-1 model (RBArena) does for this call, slot for slot
ModelNext ==
  CASE Ev.op = "ins"   -> IF Ev.k \in KeysOf(T) THEN T ELSE Insert(T, Ev.k, Ev.v)
    [] Ev.op = "del"   -> Delete(T, Ev.k)
    [] Ev.op = "delh"  -> IF Ev.h \in Reach(T) THEN DeleteIndex(T, Ev.h) ELSE T
    [] Ev.op = "write" -> IF Ev.h \in Reach(T) THEN [T EXCEPT !.nd[Ev.h + 1].v = Ev.v] ELSE T
    [] Ev.op = "clear" -> Clear(T)
    [] OTHER -> T                      \* read-only calls leave the arena untouched
SameArena(A, B) == A.root = B.root /\ A.ucap = B.ucap /\ Len(A.nd) = Len(B.nd) /\ Len(A.free) = Len(B.free)
                   /\ (\A i \in 1..Len(A.nd) : A.nd[i] = B.nd[i]) /\ (\A i \in 1..Len(A.free) : A.free[i] = B.free[i])
DriftCheck ==
  hasSnap /\ Has("snap") /\ ~stale /\ Ev.out = "ok" /\ Ev.op \notin {"bulk", "bulkdel"} /\ WellFormed(T) /\ PoolOK(T)
     => Drift(SameArena(ModelNext, T'), Ev.op)

StepOp ==
  /\ T' = Bind
  /\ hasSnap' = hasSnap /\ isSet' = isSet /\ cap0' = cap0
  /\ stale' = (hasSnap /\ ~Has("snap"))
  /\ gaps' = (gaps \/ (hasSnap /\ ~Has("snap")))
  /\ peak' = NewPeak /\ every' = every
  /\ DriftCheck
  \* binding: an instance that ships every snapshot must ship it with every call that returned
  /\ (hasSnap /\ every = 1 /\ ~Has("snap") /\ ~Has("arena") /\ Ev.op \notin {"export", "exportn", "drop"} /\ Ev.out \in {"ok", "unwound"}
        => Breach(<<"snapshot missing: the structural predicates are unbound", Ev.op>>))
  /\ CASE Ev.out = "ok" -> OpOk
       [] Ev.out = "unwound" -> OpUnwound
       [] OTHER -> /\ Same
                   /\ V("OUTCOME", FALSE, <<Ev.op, "ended with", Ev.out, IF Has("msg") THEN Ev.msg ELSE "">>)
  /\ rpeak' = Max(rpeak, Cardinality(DOMAIN m'))
  \* an arena too large to be shipped is reported by its size: judged against the reference's peak
  /\ (Has("arena") => V("GROWTH", Ev.arena.slots <= 4 * (rpeak' + 1) + Max(cap0, 8),
                            <<"arena slots", Ev.arena.slots, "peak population (reference)", rpeak'>>))

StepReset ==
  /\ m' = R!Empty /\ des' = R!Empty /\ aged' = {} /\ peak' = 0 /\ cap0' = Ev.cap /\ stale' = FALSE /\ gaps' = FALSE /\ every' = (IF Has("se") THEN Ev.se ELSE 1) /\ rpeak' = 0
  /\ hasSnap' = Has("snap") /\ isSet' = (Ev.set = 1)
  /\ T' = IF Has("snap") THEN FromSnap(Ev.snap) ELSE NoTree
  /\ (Has("snap") => Structure(T', 0, Ev.cap) /\ V("CLEARED", RangeOK(T') /\ Contents(T') = {}, "a new tree stores entries"))

StepLoad ==
  /\ T' = FromSnap(Ev.snap)
  /\ hasSnap' = TRUE /\ isSet' = (Ev.set = 1) /\ cap0' = Ev.cap /\ stale' = FALSE /\ gaps' = FALSE /\ every' = (IF Has("se") THEN Ev.se ELSE 1) /\ rpeak' = 0
  /\ m' = IF RangeOK(T') THEN FromGraph(Contents(T')) ELSE R!Empty
  /\ des' = R!Empty /\ aged' = {}
  /\ peak' = IF RangeOK(T') THEN Max(Count(T'), (Len(T'.nd) - Max(Ev.cap, 8)) \div 4) ELSE 0
  /\ Structure(T', peak', Ev.cap)

Step ==
  /\ l <= Len(Rec)
  /\ l' = l + 1
  /\ CASE Ev.ev = "reset" -> StepReset
       [] Ev.ev = "load"  -> StepLoad
       [] Ev.ev = "op"    -> StepOp
       [] OTHER -> UNCHANGED <<m, des, aged, T, hasSnap, isSet, peak, cap0, stale, gaps, every, rpeak>> /\ Breach(<<"unknown event", Ev.ev>>)

Init == /\ l = 1 /\ m = R!Empty /\ des = R!Empty /\ aged = {} /\ T = NoTree
        /\ hasSnap = FALSE /\ isSet = FALSE /\ peak = 0 /\ cap0 = 0 /\ stale = FALSE /\ gaps = FALSE /\ every = 1 /\ rpeak = 0

Spec == Init /\ [][Step]_vars

Accepted ==
  IF TLCGet("stats").diameter - 1 = Len(Rec) THEN PrintT(<<"ACCEPTED", Len(Rec)>>)
  ELSE Print(<<"REJECTED", TLCGet("stats").diameter, Len(Rec)>>, FALSE)
=============================================================================
