------------------------------ MODULE MCHeap ------------------------------
(* static, complete check of SegHeap for a given H (C15 on the specification) *)
EXTENDS SegHeap
VARIABLE r          \* one state per bucket range: every statement is checked range by range

IntervalForm == \A i \in Nodes : CoverF[i] = CLoF[i]..CHiF[i]
\* ---- the statements of C15, for the range r ------------------------------------------------
ImplMatchesRef == PlaceImpl(r[1], r[2]) = PlaceRef(r[1], r[2]) /\ VisitImpl(r[1], r[2]) = VisitRef(r[1], r[2])
MaxCopies == IF H = 1 THEN 2 ELSE 2 * (H - 1)          \* 8 for H = 5
Tiling == LET P == PlaceRef(r[1], r[2]) IN
     /\ Cardinality(P) <= MaxCopies
     /\ \A x \in 0..(Leaves - 1) : Cardinality({i \in P : x \in CoverF[i]}) = (IF x \in r[1]..r[2] THEN 1 ELSE 0)
MeetIffOverlap == \A q \in Ranges :
     (PlaceRef(r[1], r[2]) \cap VisitRef(q[1], q[2]) # {}) <=> Overlap(r[1], r[2], q[1], q[2])
\* every place of a query and of a value is backed by storage when the last bucket used is b
Backed == \A i \in PlaceRef(r[1], r[2]) \cup VisitRef(r[1], r[2]) : i <= r[2] + Sub

Init == r \in Ranges
Next == r' = r
Inv == IntervalForm /\ ImplMatchesRef /\ Tiling /\ MeetIffOverlap /\ Backed
=============================================================================
