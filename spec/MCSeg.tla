------------------------------ MODULE MCSeg ------------------------------
(***************************************************************************)
(* Layer 1 model of SegExpTree (src/seg/tree.rs) with a parametric heap    *)
(* height: per-place lists of [id, e, mask] copies and the lazy iterator   *)
(* (place cursor i0, list cursor i1, remaining place bits) with the        *)
(* swap-remove of expired copies inside next().  One action per call:      *)
(* insert_by_range, iter_by_range (IterNew), Iterator::next (IterNext),    *)
(* dropping the iterator midway (IterDrop), clear.  Decides on the         *)
(* specification, for every history within the constants:                  *)
(*   C03  a completely consumed query yields exactly Expect, each once;    *)
(*        every single yield is allowed and new (so every prefix is fine)  *)
(*   C16  after a complete whole-domain query no expired copy is stored    *)
(*   C12  clear empties every list; KeepsLive: unexpired values keep all   *)
(*        their copies whatever was scanned, dropped or removed meanwhile  *)
(* The iterator logic does not depend on H; the code's H is 5.             *)
(***************************************************************************)
EXTENDS SegHeap, Sequences

CONSTANTS MaxVals, MaxTime,
          Faults      \* TRUE: explore a panic of the expiration accessor at every callback of next() (C18)
VARIABLES chunks, vals, now, it, yielded
vars == <<chunks, vals, now, it, yielded>>

Times == 0..MaxTime
Exps == 0..MaxTime
MinOf(S) == CHOOSE x \in S : \A y \in S : x <= y
RECURSIVE SortSet(_)
SortSet(S) == IF S = {} THEN <<>> ELSE <<MinOf(S)>> \o SortSet(S \ {MinOf(S)})      \* BitIter order

NoIt == [on |-> FALSE]
Init == chunks = [i \in Nodes |-> <<>>] /\ vals = {} /\ now = 0 /\ it = NoIt /\ yielded = <<>>

RECURSIVE AppendAll(_, _, _)
AppendAll(ch, places, ent) == IF places = <<>> THEN ch
   ELSE AppendAll([ch EXCEPT ![Head(places)] = Append(@, ent)], Tail(places), ent)

Insert(a, b, e) ==
  /\ ~it.on /\ Cardinality(vals) < MaxVals
  /\ LET id == Cardinality(vals) + 1
         m  == PlaceImpl(a, b)
     IN /\ chunks' = AppendAll(chunks, SortSet(m), [id |-> id, e |-> e, mask |-> m])
        /\ vals' = vals \cup {[id |-> id, a |-> a, b |-> b, e |-> e]}
  /\ UNCHANGED <<now, it, yielded>>

\* find_next_not_empty_chunk: <<i0 or -1 (usize::MAX), remaining bits>>
RECURSIVE FindNext(_, _)
FindNext(ch, bits) == IF bits = <<>> THEN <<-1, <<>>>>
   ELSE IF ch[Head(bits)] # <<>> THEN <<Head(bits), Tail(bits)>> ELSE FindNext(ch, Tail(bits))

Expect(c, d, t) == {x.id : x \in {x \in vals : x.e >= t /\ x.a <= d /\ c <= x.b}}

IterNew(c, d, t) ==
  /\ ~it.on /\ t >= now
  /\ LET q == VisitImpl(c, d)
         f == FindNext(chunks, SortSet(q))
     IN it' = [on |-> TRUE, q |-> q, t |-> t, i0 |-> f[1], i1 |-> 0, bits |-> f[2],
               expect |-> Expect(c, d, t), whole |-> (c = 0 /\ d = Leaves - 1)]
  /\ now' = t /\ yielded' = <<>>
  /\ UNCHANGED <<chunks, vals>>

SwapRemove(s, i) ==                    \* Vec::swap_remove at 1-based position i
  IF i = Len(s) THEN SubSeq(s, 1, Len(s) - 1)
  ELSE [j \in 1..(Len(s) - 1) |-> IF j = i THEN s[Len(s)] ELSE s[j]]

\* one call of next(): <<chunks', i0', i1', bits', result (-1 = None)>>
RECURSIVE Scan(_, _, _, _, _, _)
Scan(ch, i0, i, bits, q, t) ==
  IF i0 = -1 THEN <<ch, i0, i, bits, -1>>
  ELSE IF Assert(i0 \in Nodes, <<"chunk index out of bounds", i0>>) /\ i < Len(ch[i0]) THEN
     LET item == ch[i0][i + 1] IN
     IF item.e < t THEN Scan([ch EXCEPT ![i0] = SwapRemove(@, i + 1)], i0, i, bits, q, t)
     ELSE IF MinOf(item.mask \cap q) = i0 THEN <<ch, i0, i + 1, bits, item.id>>       \* first common place
     ELSE Scan(ch, i0, i + 1, bits, q, t)
  ELSE LET f == FindNext(ch, bits) IN Scan(ch, f[1], 0, f[2], q, t)

IterNext ==
  /\ it.on
  /\ LET r == Scan(chunks, it.i0, it.i1, it.bits, it.q, it.t) IN
     /\ chunks' = r[1]
     /\ IF r[5] = -1
        THEN /\ it' = NoIt /\ yielded' = yielded
             /\ Assert({yielded[j] : j \in 1..Len(yielded)} = it.expect, <<"C03 complete", yielded, it.expect>>)
             /\ Assert(it.whole => \A p \in Nodes : \A j \in 1..Len(r[1][p]) : r[1][p][j].e >= it.t, "C16")
        ELSE /\ it' = [it EXCEPT !.i0 = r[2], !.i1 = r[3], !.bits = r[4]]
             /\ yielded' = Append(yielded, r[5])
             /\ Assert(r[5] \in it.expect /\ \A j \in 1..Len(yielded) : yielded[j] # r[5], <<"C03 yield", r[5], yielded, it.expect>>)
  /\ UNCHANGED <<vals, now>>

\* C18: the expiration accessor is the only user callback of next(); it is called once per copy the
\* scan looks at, before that copy is removed or reported.  ScanP is Scan with a countdown: at the
\* cd-th call of the accessor it panics and the call unwinds with the lists as they are then.
RECURSIVE ScanP(_, _, _, _, _, _, _)
ScanP(ch, i0, i, bits, q, t, cd) ==
  IF i0 = -1 THEN <<ch, FALSE>>                                    \* returned None before the cd-th callback
  ELSE IF i < Len(ch[i0]) THEN
     IF cd = 1 THEN <<ch, TRUE>>                                    \* item.val.expiration() panics
     ELSE LET item == ch[i0][i + 1] IN
          IF item.e < t THEN ScanP([ch EXCEPT ![i0] = SwapRemove(@, i + 1)], i0, i, bits, q, t, cd - 1)
          ELSE IF MinOf(item.mask \cap q) = i0 THEN <<ch, FALSE>>  \* returned Some before the cd-th callback
          ELSE ScanP(ch, i0, i + 1, bits, q, t, cd - 1)
  ELSE LET f == FindNext(ch, bits) IN ScanP(ch, f[1], 0, f[2], q, t, cd)

IterNextPanic ==
  /\ it.on
  /\ \E cd \in 1..(MaxVals * (2 * H) + 1) :
        LET r == ScanP(chunks, it.i0, it.i1, it.bits, it.q, it.t, cd) IN
        /\ r[2]
        /\ chunks' = r[1]
  /\ it' = NoIt                          \* the iterator is dropped by the unwinding
  /\ UNCHANGED <<vals, now, yielded>>

IterDrop == it.on /\ it' = NoIt /\ UNCHANGED <<chunks, vals, now, yielded>>
Clear == ~it.on /\ chunks' = [i \in Nodes |-> <<>>] /\ vals' = {} /\ now' = 0 /\ UNCHANGED <<it, yielded>>

Next == \/ \E r \in Ranges, e \in Exps : Insert(r[1], r[2], e)
        \/ \E r \in Ranges, t \in Times : IterNew(r[1], r[2], t)
        \/ IterNext \/ IterDrop \/ Clear
        \/ (Faults /\ IterNextPanic)
Spec == Init /\ [][Next]_vars

\* unexpired values keep every copy
KeepsLive == \A x \in vals : x.e >= now => \A p \in PlaceRef(x.a, x.b) : \E j \in 1..Len(chunks[p]) : chunks[p][j].id = x.id
\* a place holds at most one copy of a value, and only of values that belong there
NoStray == \A p \in Nodes : \A j \in 1..Len(chunks[p]) :
   /\ \E x \in vals : x.id = chunks[p][j].id /\ p \in PlaceRef(x.a, x.b)
   /\ \A k \in 1..Len(chunks[p]) : k # j => chunks[p][k].id # chunks[p][j].id
Inv == KeepsLive /\ NoStray
=============================================================================
