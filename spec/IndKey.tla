------------------------------ MODULE IndKey ------------------------------
(***************************************************************************)
(* One-step ("inductive") model of KeyExpTree - the counterpart of IndOrd. *)
(*                                                                         *)
(* Start states: EVERY red-black tree with at most MaxN nodes (RBShapes),  *)
(* each node carrying expiration 1 or 2 in every combination, stored in an *)
(* exactly full arena or one with free slots; the clock stands at 0 and    *)
(* the reference holds exactly the stored entries.  At time 0 everything   *)
(* is live, at time 1 exactly the entries with expiration 1 have expired - *)
(* so every pattern of expired / live nodes over every tree shape is a     *)
(* start state, including those no history over 5 keys can produce (long   *)
(* chains of expired roots, an expired node whose successor, sibling and   *)
(* nephews are expired, expired nodes deep under live ones).               *)
(* One step of every kind is taken: every query form for every probe at    *)
(* both times, every insertion into every gap and every re-insertion of an *)
(* expired key with every admissible expiration, clear.  MCKey's in-action *)
(* assertions (result = KeyExpRef, refinement, only live keys compared,    *)
(* abstract pool steps, and with Faults the state at every callback point) *)
(* hold on every such transition, its invariants on every successor.       *)
(***************************************************************************)
EXTENDS MCKey, RBShapes

CONSTANTS MaxN, MinN

VARIABLE phase
ivars == <<T, now, ents, path, phase>>

STab == ShapeTab(MaxN)

Variants == {<<0, 8>>, <<2, 2>>}

StartOf(s, n, var, ex) ==
  Relabel(Arena(s, var[1], var[2]), n, LAMBDA r : 2 * r, LAMBDA r : Val(2 * r, ex[r]), LAMBDA r : ex[r])

IndInit ==
  /\ \E n \in MinN..MaxN : \E s \in ShapesOfSize(STab, n) : \E var \in Variants : \E ex \in [1..n -> {1, 2}] :
        T = StartOf(s, n, var, ex)
  /\ now = 0
  /\ ents = Phys(T)
  /\ path = ""
  /\ phase = 0

\* (keys above 2 * Count + 1 are all the same gap)
IndNext ==
  /\ phase = 0
  /\ phase' = 1
  /\ LET top == 2 * Count(T) + 1 IN
     \/ \E k \in 1..top, e \in Exps, t \in Times : DoInsert(k, e, t)
     \/ \E p \in 0..(top + 1), t \in Times : DoQuery("lt", p, t) \/ DoQuery("le", p, t) \/ DoQuery("get", p, t)
     \/ \E th \in 1..(2 * top + 1), t \in Times : DoQuery("by", th, t)
     \/ DoClear

IndSpec == IndInit /\ [][IndNext]_ivars

\* (enumeration of the start states only: no step is taken; used to print start states of sizes whose
\* successors are too many to enumerate in the quick tier)
IndNoStep == phase = 0 /\ phase' = 0 /\ UNCHANGED <<T, now, ents, path>>

\* the export is evaluated from the start states (every tree x every expiry pattern x both times)
IndExport == phase = 0 => ExportOK

EmitState == (Emit /\ phase = 0) => PrintT("STATE " \o SnapTxt(T))
=============================================================================
