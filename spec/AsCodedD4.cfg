CONSTANTS Keys = {1,2,3}
 StepMode = "asCoded"
INIT Init
NEXT Next
INVARIANT Inv
CHECK_DEADLOCK FALSE
