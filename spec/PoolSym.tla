------------------------------ MODULE PoolSym ------------------------------
(***************************************************************************)
(* C11, "storage is bounded by a constant multiple of the peak population   *)
(* plus the initial capacity, however many operations are executed and      *)
(* whatever the capacity hint" - as an INDUCTIVE invariant of the slot pool *)
(* (src/*/pool.rs) abstracted to integers, discharged by Apalache (Z3) for  *)
(* arenas and histories of every size:                                      *)
(*     n   number of arena slots (buffer.len()), sentinel included           *)
(*     f   length of the free list (unused.len())                           *)
(*     u   unused.capacity(): by how much the arena grows when f = 0        *)
(*     pk  peak number of stored entries so far;  c0 = max(hint, 8)         *)
(* stored entries = n - 1 - f (PoolOK, checked by TLC on the concrete       *)
(* model, is exactly what makes this projection meaningful).  Actions:      *)
(*   Take    get_free_index with a non-empty free list                      *)
(*   GrowTake get_free_index with an empty free list: reserve(u), then pop  *)
(*   Give    put_back: push, the Vec doubling when it is full               *)
(* MCOrd asserts on every transition of the concrete model that its         *)
(* projection is a sequence of these steps (AbsStepOK).                     *)
(*   apalache-mc check --init=Init    --inv=IndInv --length=0 PoolSym.tla   *)
(*   apalache-mc check --init=IndInit --inv=IndInv --length=1 PoolSym.tla   *)
(***************************************************************************)
EXTENDS Integers

VARIABLES
  \* @type: Int;
  n,
  \* @type: Int;
  f,
  \* @type: Int;
  u,
  \* @type: Int;
  pk,
  \* @type: Int;
  c0

\* @type: (Int, Int) => Int;
MaxI(a, b) == IF a > b THEN a ELSE b

Stored == n - 1 - f

\* Pool::new(hint) followed by the pop of the sentinel slot
Init == /\ c0 \in 8..1000000000
        /\ n = c0 /\ f = c0 - 1 /\ u = c0 /\ pk = 0

Take     == /\ f > 0
            /\ f' = f - 1 /\ n' = n /\ u' = u /\ c0' = c0
            /\ pk' = MaxI(pk, n - 1 - (f - 1))
GrowTake == /\ f = 0
            /\ n' = n + u /\ f' = u - 1 /\ u' = u /\ c0' = c0
            /\ pk' = MaxI(pk, (n + u) - 1 - (u - 1))
Give     == /\ Stored > 0
            /\ f' = f + 1 /\ n' = n /\ c0' = c0 /\ pk' = pk
            /\ u' = IF f + 1 <= u THEN u ELSE MaxI(2 * u, f + 1)       \* amortised doubling of Vec<u32>

Next == Take \/ GrowTake \/ Give

\* the statement of C11 (the trace checks use the looser 4 * (pk + 1) + max(hint, 8))
Bound == n <= 3 * (pk + 1) + c0

\* what makes it inductive
IndInv ==
  /\ c0 >= 8 /\ n >= c0 /\ u >= c0
  /\ f >= 0 /\ f <= n - 1
  /\ pk >= Stored /\ pk >= 0
  /\ u <= MaxI(c0, 2 * (n - 2))          \* the free list's capacity never outruns the arena
  /\ Bound

\* an arbitrary state satisfying the invariant (for the inductive step)
IndInit == /\ c0 \in 8..1000000000 /\ n \in 8..4000000000000 /\ f \in 0..4000000000000
           /\ u \in 8..8000000000000 /\ pk \in 0..4000000000000
           /\ IndInv
=============================================================================
