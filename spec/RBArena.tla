------------------------------ MODULE RBArena ------------------------------
(***************************************************************************)
(* Layer 1: the arena-backed red-black tree shared (as three hand-made     *)
(* copies) by src/map/tree.rs, src/set/tree.rs and src/key/tree.rs, with   *)
(* its slot pool (src/*/pool.rs).  One operator per Rust function, same    *)
(* statement order, same temporary NIL sentinel in slot 0, same LIFO free  *)
(* list, same Vec growth rule.                                             *)
(*                                                                         *)
(* A tree state is a record  T = [root, nd, free, ucap]:                   *)
(*   nd    slot array; slot i is nd[i+1]; a slot is                        *)
(*         [p, l, r, c, k, v, e]  parent/left/right link, colour, key,     *)
(*         value (payload), expiration (0 for map and set)                 *)
(*   free  Pool::unused as a sequence, top of the stack = last element     *)
(*   ucap  unused.capacity(): get_free_index grows the arena by this much  *)
(* EMPTY_REF (u32::MAX) is written -1.                                     *)
(***************************************************************************)
EXTENDS Integers, Sequences, FiniteSets, TLC

E     == -1     \* EMPTY_REF
NIL   == 0      \* NIL_INDEX
Red   == 1
Black == 0

Max(a, b) == IF a > b THEN a ELSE b
Min(a, b) == IF a < b THEN a ELSE b

DefaultNode == [p |-> 0, l |-> 0, r |-> 0, c |-> Red, k |-> 0, v |-> 0, e |-> 0]

(***************************************************************************)
(* Pool                                                                    *)
(***************************************************************************)
RevRange(a, b) == [i \in 1..(b - a) |-> b - i]           \* (a..b).rev()

Reserve(T, len) ==
  LET n == Len(T.nd) IN
  IF Assert(len > 0, "reserve: debug_assert!(length > 0)") THEN
  [T EXCEPT !.nd   = T.nd \o [i \in 1..len |-> DefaultNode],
            !.free = T.free \o RevRange(n, n + len)]
  ELSE T

\* std's amortised growth of Vec<u32> on push (explicit, replaceable assumption)
GrowCap(cap, need) == IF need <= cap THEN cap ELSE Max(Max(2 * cap, need), 4)

NewPool(cap0) ==
  LET c == Max(cap0, 8) IN
  Reserve([root |-> E, nd |-> <<>>, free |-> <<>>, ucap |-> c], c)

\* get_free_index: returns <<T', index>>
GetFree(T) ==
  LET T1 == IF T.free = <<>> THEN Reserve(T, T.ucap) ELSE T
      i  == T1.free[Len(T1.free)]
  IN <<[T1 EXCEPT !.free = SubSeq(T1.free, 1, Len(T1.free) - 1)], i>>

PutBack(T, i) ==
  [T EXCEPT !.free = Append(T.free, i),
            !.ucap = GrowCap(T.ucap, Len(T.free) + 1)]

NewTree(cap0) == GetFree(NewPool(cap0))[1]      \* slot 0 is taken as the NIL sentinel

(***************************************************************************)
(* Node access.  Every read of a slot goes through N, which asserts the    *)
(* index is inside the arena: an out-of-bounds get_unchecked is a model    *)
(* error with a TLC counter-example (C10).                                 *)
(***************************************************************************)
InB(T, i) == i >= 0 /\ i < Len(T.nd)
N(T, i) == IF Assert(InB(T, i), <<"OOB node access", i>>) THEN T.nd[i + 1] ELSE DefaultNode

SetP(T, i, x) == IF Assert(InB(T, i), <<"OOB node write", i>>) THEN [T EXCEPT !.nd[i + 1].p = x] ELSE T
SetL(T, i, x) == IF Assert(InB(T, i), <<"OOB node write", i>>) THEN [T EXCEPT !.nd[i + 1].l = x] ELSE T
SetR(T, i, x) == IF Assert(InB(T, i), <<"OOB node write", i>>) THEN [T EXCEPT !.nd[i + 1].r = x] ELSE T
SetC(T, i, x) == IF Assert(InB(T, i), <<"OOB node write", i>>) THEN [T EXCEPT !.nd[i + 1].c = x] ELSE T

IsBlack(T, i) == i = E \/ N(T, i).c = Black

(***************************************************************************)
(* Rotations and insertion                                                 *)
(***************************************************************************)
ReplaceParentsChild(T, parent, old, new) ==
  LET T1 == SetP(T, new, parent) IN
  IF parent = E THEN [T1 EXCEPT !.root = new]
  ELSE IF Assert(N(T1, parent).l = old \/ N(T1, parent).r = old, "Node is not a child of its parent")
          /\ N(T1, parent).l = old
       THEN SetL(T1, parent, new) ELSE SetR(T1, parent, new)

RotateRight(T, i) ==
  LET p   == N(T, i).p
      lt  == N(T, i).l
      ltr == N(T, lt).r
      T1  == SetR(T, lt, i)
      T2  == IF ltr # E THEN SetP(T1, ltr, i) ELSE T1
      T3  == SetP(SetL(T2, i, ltr), i, lt)
  IN ReplaceParentsChild(T3, p, i, lt)

RotateLeft(T, i) ==
  LET p   == N(T, i).p
      rt  == N(T, i).r
      rtl == N(T, rt).l
      T1  == SetL(T, rt, i)
      T2  == IF rtl # E THEN SetP(T1, rtl, i) ELSE T1
      T3  == SetP(SetR(T2, i, rtl), i, rt)
  IN ReplaceParentsChild(T3, p, i, rt)

GetUncle(T, p0) ==
  LET g == N(T, p0).p IN
  IF Assert(g # E, "get_uncle: debug_assert!(parent.parent != EMPTY_REF)")
     /\ Assert(N(T, g).l = p0 \/ N(T, g).r = p0, "Parent is not a child of its grandparent")
     /\ N(T, g).l = p0 THEN N(T, g).r ELSE N(T, g).l

RECURSIVE FixInsert(_, _, _)
FixInsert(T, n, p0) ==              \* fix_red_black_properties_after_insert; parent p0 is red
  LET g == N(T, p0).p IN
  IF g = E THEN SetC(T, p0, Black)                                   \* case 2
  ELSE
    LET u == GetUncle(T, p0) IN
    IF u # E /\ N(T, u).c = Red THEN                                 \* case 3
      LET T1 == SetC(SetC(SetC(T, p0, Black), g, Red), u, Black)
          gg == N(T1, g).p
      IN IF gg # E /\ N(T1, gg).c = Red THEN FixInsert(T1, g, gg) ELSE T1
    ELSE IF p0 = N(T, g).l THEN                                      \* cases 4a, 5a
      LET inner == n = N(T, p0).r
          T1 == IF inner THEN RotateLeft(T, p0) ELSE T
          p1 == IF inner THEN n ELSE p0
          T2 == RotateRight(T1, g)
      IN SetC(SetC(T2, p1, Black), g, Red)
    ELSE                                                             \* cases 4b, 5b
      LET inner == n = N(T, p0).l
          T1 == IF inner THEN RotateRight(T, p0) ELSE T
          p1 == IF inner THEN n ELSE p0
          T2 == RotateLeft(T1, g)
      IN SetC(SetC(T2, p1, Black), g, Red)

\* insert_new / insert_root: returns <<T', new index>>
InsertNew(T, k, v, e, p, c) ==
  LET gf == GetFree(T)
      i  == gf[2]
  IN <<[gf[1] EXCEPT !.nd[i + 1] = [p |-> p, l |-> E, r |-> E, c |-> c, k |-> k, v |-> v, e |-> e]], i>>

\* insert_as_left / insert_as_right
Link(T, p, k, v, e, side) ==
  LET r  == InsertNew(T, k, v, e, p, Red)
      T1 == IF side = "L" THEN SetL(r[1], p, r[2]) ELSE SetR(r[1], p, r[2])
  IN IF N(T1, p).c = Red THEN FixInsert(T1, r[2], p) ELSE T1

InsertRoot(T, k, v, e) ==
  LET r == InsertNew(T, k, v, e, E, Black) IN [r[1] EXCEPT !.root = r[2]]

RECURSIVE Descend(_, _, _)
Descend(T, i, k) ==                 \* insert_entity loop of map/set: <<parent, side>>
  IF k < N(T, i).k
    THEN IF N(T, i).l = E THEN <<i, "L">> ELSE Descend(T, N(T, i).l, k)
    ELSE IF N(T, i).r = E THEN <<i, "R">> ELSE Descend(T, N(T, i).r, k)

Insert(T, k, v) ==                  \* MapTree::insert / SetTree::insert
  IF T.root = E THEN InsertRoot(T, k, v, 0)
  ELSE LET d == Descend(T, T.root, k) IN Link(T, d[1], k, v, 0, d[2])

(***************************************************************************)
(* Removal                                                                 *)
(***************************************************************************)
RECURSIVE LeftMin(_, _)
LeftMin(T, i) == IF N(T, i).l = E THEN i ELSE LeftMin(T, N(T, i).l)       \* find_left_minimum
RECURSIVE RightMax(_, _)
RightMax(T, i) == IF N(T, i).r = E THEN i ELSE RightMax(T, N(T, i).r)     \* find_right_minimum (set)

Sibling(T, n) ==
  LET p == N(T, n).p IN
  IF Assert(n = N(T, p).l \/ n = N(T, p).r, "get_sibling: debug_assert!(child of parent)")
     /\ n = N(T, p).l THEN N(T, p).r ELSE N(T, p).l

HandleRedSibling(T, n, s) ==
  LET p  == N(T, n).p
      T1 == SetC(SetC(T, s, Black), p, Red)
  IN IF n = N(T1, p).l THEN RotateLeft(T1, p) ELSE RotateRight(T1, p)

HandleBlackSiblingRedChild(T, n, s0) ==
  LET p      == N(T, n).p
      isLeft == n = N(T, p).l
      sl0    == N(T, s0).l
      sr0    == N(T, s0).r
      case5L == isLeft /\ IsBlack(T, sr0)
      case5R == ~isLeft /\ IsBlack(T, sl0)
      T1 == IF case5L THEN
               RotateRight(SetC(IF sl0 # E THEN SetC(T, sl0, Black) ELSE T, s0, Red), s0)
            ELSE IF case5R THEN
               RotateLeft(SetC(IF sr0 # E THEN SetC(T, sr0, Black) ELSE T, s0, Red), s0)
            ELSE T
      s  == IF case5L THEN N(T1, p).r ELSE IF case5R THEN N(T1, p).l ELSE s0
      sl == N(T1, s).l
      sr == N(T1, s).r
      T2 == SetC(SetC(T1, s, N(T1, p).c), p, Black)
  IN IF isLeft THEN RotateLeft(IF sr # E THEN SetC(T2, sr, Black) ELSE T2, p)
     ELSE RotateRight(IF sl # E THEN SetC(T2, sl, Black) ELSE T2, p)

RECURSIVE FixDelete(_, _)
FixDelete(T, n) ==                  \* fix_red_black_properties_after_delete
  IF n = T.root THEN T              \* case 1: "do not color root to black"
  ELSE
    LET s0  == Sibling(T, n)
        red == N(T, s0).c = Red
        T1  == IF red THEN HandleRedSibling(T, n, s0) ELSE T         \* case 2
        s   == IF red THEN Sibling(T1, n) ELSE s0
    IN IF IsBlack(T1, N(T1, s).l) /\ IsBlack(T1, N(T1, s).r) THEN    \* cases 3, 4
         LET T2 == SetC(T1, s, Red)
             p  == N(T2, n).p
         IN IF N(T2, p).c = Red THEN SetC(T2, p, Black) ELSE FixDelete(T2, p)
       ELSE HandleBlackSiblingRedChild(T1, n, s)                     \* cases 5, 6

ChildSlotCheck(T, parent, old) ==
  Assert(N(T, parent).l = old \/ N(T, parent).r = old, "Node is not a child of its parent")

DeleteIndex(T, index) ==            \* delete_index
  LET nd   == N(T, index)
      two  == nd.l # E /\ nd.r # E
      succ == IF two THEN LeftMin(T, nd.r) ELSE index
      sn   == N(T, succ)
      \* the successor's entity is copied into the removed node's slot
      T0   == IF two THEN [T EXCEPT !.nd[index + 1].k = sn.k, !.nd[index + 1].v = sn.v,
                                    !.nd[index + 1].e = sn.e] ELSE T
      del  == succ
      T1 == IF sn.l # E THEN FixDelete(ReplaceParentsChild(T0, sn.p, del, sn.l), sn.l)
            ELSE IF sn.r # E THEN FixDelete(ReplaceParentsChild(T0, sn.p, del, sn.r), sn.r)
            ELSE IF sn.p = E THEN [T0 EXCEPT !.root = E]
            ELSE IF sn.c = Black THEN
               LET Ta == [T0 EXCEPT !.nd[NIL + 1].p = sn.p, !.nd[NIL + 1].l = E,       \* create_nil_node
                                    !.nd[NIL + 1].r = E, !.nd[NIL + 1].c = Red]
                   Tb == IF ChildSlotCheck(Ta, sn.p, del) /\ N(Ta, sn.p).l = del       \* set_nil_parents_child
                         THEN SetL(Ta, sn.p, NIL) ELSE SetR(Ta, sn.p, NIL)
                   Tc == FixDelete(Tb, NIL)
                   np == N(Tc, NIL).p                                                  \* fix_parents_nil_child
               IN IF ChildSlotCheck(Tc, np, NIL) /\ N(Tc, np).l = NIL THEN SetL(Tc, np, E) ELSE SetR(Tc, np, E)
            ELSE IF ChildSlotCheck(T0, sn.p, del) /\ N(T0, sn.p).l = del               \* remove_parents_child
                 THEN SetL(T0, sn.p, E) ELSE SetR(T0, sn.p, E)
  IN PutBack(T1, del)

RECURSIVE FindIndex(_, _, _)
FindIndex(T, i, k) ==
  IF i = E THEN E
  ELSE IF k = N(T, i).k THEN i
  ELSE IF k < N(T, i).k THEN FindIndex(T, N(T, i).l, k) ELSE FindIndex(T, N(T, i).r, k)

Delete(T, k) ==
  LET i == FindIndex(T, T.root, k) IN IF i = E THEN T ELSE DeleteIndex(T, i)

(***************************************************************************)
(* clear: breadth-first release, the free list itself is the queue         *)
(***************************************************************************)
RECURSIVE ClearRound(_, _, _, _)
ClearRound(TT, i, last, cnt) ==     \* for i in i0..unused.len() (bound evaluated once)
  IF i > last THEN <<TT, cnt>>
  ELSE LET idx == TT.free[i]
           lf  == N(TT, idx).l
           rt  == N(TT, idx).r
           T1  == IF lf # E THEN PutBack(TT, lf) ELSE TT
           T2  == IF rt # E THEN PutBack(T1, rt) ELSE T1
       IN ClearRound(T2, i + 1, last, cnt + (IF lf # E THEN 1 ELSE 0) + (IF rt # E THEN 1 ELSE 0))

RECURSIVE ClearLoop(_, _)
ClearLoop(T, n) ==
  IF n = 0 THEN T
  ELSE LET res == ClearRound(T, Len(T.free) - n + 1, Len(T.free), 0)
       IN ClearLoop(res[1], res[2])

Clear(T) ==
  IF T.root = E THEN T
  ELSE ClearLoop([PutBack(T, T.root) EXCEPT !.root = E], 1)

(***************************************************************************)
(* Read-only searches of map and set                                       *)
(***************************************************************************)
RECURSIVE SearchFirstLess(_, _, _, _)
SearchFirstLess(T, i, k, res) ==    \* search_first_less: handle of the greatest key <= k
  IF i = E THEN res
  ELSE IF N(T, i).k = k THEN i
  ELSE IF N(T, i).k < k THEN SearchFirstLess(T, N(T, i).r, k, i)
  ELSE SearchFirstLess(T, N(T, i).l, k, res)

\* comparator "compare 2*key with theta": theta even designates a key, odd a gap
RECURSIVE SearchFirstLessBy(_, _, _, _)
SearchFirstLessBy(T, i, th, res) ==
  IF i = E THEN res
  ELSE IF 2 * N(T, i).k = th THEN i
  ELSE IF 2 * N(T, i).k < th THEN SearchFirstLessBy(T, N(T, i).r, th, i)
  ELSE SearchFirstLessBy(T, N(T, i).l, th, res)

\* SetTree::index_after / index_before (climb loops test the parent link before reading it)
RECURSIVE ClimbAfter(_, _, _)
ClimbAfter(T, index, parent) ==
  IF parent = E THEN E
  ELSE IF N(T, parent).r = index THEN ClimbAfter(T, parent, N(T, parent).p) ELSE parent
IndexAfter(T, i) == IF N(T, i).r # E THEN LeftMin(T, N(T, i).r) ELSE ClimbAfter(T, i, N(T, i).p)

RECURSIVE ClimbBefore(_, _, _)
ClimbBefore(T, index, parent) ==
  IF parent = E THEN E
  ELSE IF N(T, parent).l = index THEN ClimbBefore(T, parent, N(T, parent).p) ELSE parent
IndexBefore(T, i) == IF N(T, i).l # E THEN RightMax(T, N(T, i).l) ELSE ClimbBefore(T, i, N(T, i).p)

\* the pinned (unrepaired) climb: dereferences the parent of the root (defect D3)
RECURSIVE ClimbAfterAsCoded(_, _, _)
ClimbAfterAsCoded(T, index, parent) ==
  IF N(T, parent).r = index THEN ClimbAfterAsCoded(T, parent, N(T, parent).p) ELSE parent
IndexAfterAsCoded(T, i) ==
  IF N(T, i).r # E THEN LeftMin(T, N(T, i).r) ELSE ClimbAfterAsCoded(T, i, N(T, i).p)

(***************************************************************************)
(* Abstraction functions and invariants.  The structural predicates are    *)
(* written so that they can be evaluated on an arbitrary logged snapshot   *)
(* (trace validation) without diverging: Shape is checked first with       *)
(* iteration-bounded set operations, and only a snapshot that passes it    *)
(* is walked recursively.                                                  *)
(***************************************************************************)
AllSlots(T) == 0..(Len(T.nd) - 1)
Ref(T, x) == x = E \/ x \in AllSlots(T)

Kids(T, S) == UNION {{T.nd[i + 1].l, T.nd[i + 1].r} \ {E} : i \in S}
RECURSIVE ReachN(_, _, _)
ReachN(T, S, fuel) ==
  LET S2 == S \cup Kids(T, S) IN IF S2 = S \/ fuel = 0 THEN S ELSE ReachN(T, S2, fuel - 1)
RangeOK(T) == /\ Ref(T, T.root)
              /\ \A i \in AllSlots(T) : Ref(T, T.nd[i + 1].l) /\ Ref(T, T.nd[i + 1].r) /\ Ref(T, T.nd[i + 1].p)
\* slots reachable from the root (requires RangeOK)
Reach(T) == IF T.root = E THEN {} ELSE ReachN(T, {T.root}, Len(T.nd))

\* number of (parent, side) links inside S that point to slot i
InDeg(T, S, i) == Cardinality({j \in S : T.nd[j + 1].l = i}) + Cardinality({j \in S : T.nd[j + 1].r = i})

\* A tree: every link is answered by the child's parent link.  That makes in-links unique (a slot
\* has one parent link), so no slot is shared and no cycle can be entered from the root, whose own
\* parent link is E.  (ShapeByInDegree states the same with explicit in-degrees; MCOrd checks that
\* the two agree on every reachable state, the selftest that both reject corrupted snapshots.)
Shape(T) ==
  /\ RangeOK(T)
  /\ T.root # NIL
  /\ LET S == Reach(T) IN
     /\ NIL \notin S                                        \* the sentinel is linked nowhere
     /\ (T.root # E => T.nd[T.root + 1].p = E)
     /\ \A i \in S : /\ (T.nd[i + 1].l # E => T.nd[T.nd[i + 1].l + 1].p = i)
                     /\ (T.nd[i + 1].r # E => T.nd[T.nd[i + 1].r + 1].p = i)
                     /\ (T.nd[i + 1].l = T.nd[i + 1].r => T.nd[i + 1].l = E)

ShapeByInDegree(T) ==
  /\ RangeOK(T)
  /\ T.root # NIL
  /\ LET S == Reach(T) IN
     /\ NIL \notin S
     /\ (T.root # E => T.nd[T.root + 1].p = E /\ InDeg(T, S, T.root) = 0)
     /\ \A i \in S \ {T.root} : InDeg(T, S, i) = 1
     /\ \A i \in S : /\ (T.nd[i + 1].l # E => T.nd[T.nd[i + 1].l + 1].p = i)
                     /\ (T.nd[i + 1].r # E => T.nd[T.nd[i + 1].r + 1].p = i)

RECURSIVE InOrder(_, _)
InOrder(T, i) == IF i = E THEN <<>> ELSE InOrder(T, T.nd[i + 1].l) \o <<i>> \o InOrder(T, T.nd[i + 1].r)
KeySeq(T) == LET s == InOrder(T, T.root) IN [j \in 1..Len(s) |-> T.nd[s[j] + 1].k]
StrictlySorted(s) == \A i \in 1..(Len(s) - 1) : s[i] < s[i + 1]

RECURSIVE BH(_, _)
BH(T, i) ==                          \* black height, -1 if two paths disagree
  IF i = E THEN 0
  ELSE LET a == BH(T, T.nd[i + 1].l)
           b == BH(T, T.nd[i + 1].r)
       IN IF a = -1 \/ b = -1 \/ a # b THEN -1 ELSE a + (IF T.nd[i + 1].c = Black THEN 1 ELSE 0)

RECURSIVE Height(_, _)
Height(T, i) == IF i = E THEN 0 ELSE 1 + Max(Height(T, T.nd[i + 1].l), Height(T, T.nd[i + 1].r))

NoRedRed(T) == \A i \in Reach(T) :
  T.nd[i + 1].c = Red => /\ (T.nd[i + 1].l = E \/ T.nd[T.nd[i + 1].l + 1].c = Black)
                         /\ (T.nd[i + 1].r = E \/ T.nd[T.nd[i + 1].r + 1].c = Black)

\* height <= 2*log2(n+1)+1  <=>  2^(h-1) <= (n+1)^2   (h >= 1)
HeightOK(T) == LET n == Cardinality(Reach(T))
                   h == Height(T, T.root)
               IN h = 0 \/ (h <= 60 /\ 2 ^ (h - 1) <= (n + 1) * (n + 1))

\* C02
WellFormed(T) ==
  /\ Shape(T)
  /\ StrictlySorted(KeySeq(T))
  /\ NoRedRed(T)
  /\ BH(T, T.root) # -1
  /\ HeightOK(T)

\* C11: every slot is exactly one of: sentinel / in the tree / on the free list
FreeSet(T) == {T.free[i] : i \in 1..Len(T.free)}
PoolOK(T) ==
  /\ RangeOK(T)
  /\ LET S == Reach(T)
         F == FreeSet(T)
     IN /\ Cardinality(F) = Len(T.free)          \* nothing free twice
        /\ S \cap F = {}                         \* nothing free and in use
        /\ NIL \notin F
        /\ S \cup F \cup {NIL} = AllSlots(T)     \* nothing lost

(***************************************************************************)
(* Projection onto the integer abstraction of the pool (PoolSym.tla), whose *)
(* inductive invariant - the storage bound of C11 for arenas and histories  *)
(* of every size - is discharged by Apalache.  The MC modules assert on     *)
(* every transition that the projection moves by these abstract steps.      *)
(***************************************************************************)
AbsPool(T) == [n |-> Len(T.nd), f |-> Len(T.free), u |-> T.ucap]
AbsTake(a) == IF a.f > 0 THEN [a EXCEPT !.f = a.f - 1]
              ELSE [a EXCEPT !.n = a.n + a.u, !.f = a.u - 1]                       \* Take / GrowTake
AbsGive(a) == [a EXCEPT !.f = a.f + 1, !.u = IF a.f + 1 <= a.u THEN a.u ELSE Max(2 * a.u, a.f + 1)]
RECURSIVE AbsGives(_, _)
AbsGives(a, k) == IF k <= 0 THEN a ELSE AbsGives(AbsGive(a), k - 1)

\* canonical form: the tree up to renaming of slots
RECURSIVE Canon(_, _)
Canon(T, i) == IF i = E THEN <<>>
               ELSE <<N(T, i).k, N(T, i).v, N(T, i).e, N(T, i).c, Canon(T, N(T, i).l), Canon(T, N(T, i).r)>>

\* entries physically stored
Phys(T) == {[k |-> T.nd[i + 1].k, e |-> T.nd[i + 1].e, v |-> T.nd[i + 1].v] : i \in Reach(T)}
Contents(T) == {<<T.nd[i + 1].k, T.nd[i + 1].v>> : i \in Reach(T)}
KeysOf(T) == {T.nd[i + 1].k : i \in Reach(T)}
Count(T) == Cardinality(Reach(T))
=============================================================================
