------------------------------ MODULE MCOrdList ------------------------------
(***************************************************************************)
(* Layer 1 model of MapList / SetList (src/map/list.rs, src/set/list.rs):   *)
(* a vector of [k, v] sorted by key; handles are positions (0-based).       *)
(* The std binary searches are modelled by their contract on a sorted       *)
(* vector (Ok(position) / Err(insertion point)).  Decides on the            *)
(* specification (C13, list part of C12):                                   *)
(*   the vector stays strictly sorted; every look-up = OrdRef;              *)
(*   first_index_less(_by) = position of the greatest key <= probe or the   *)
(*   sentinel, both forms agreeing; value_by_index / delete_by_index act on *)
(*   exactly that entry; index_after / index_before (as repaired) give the  *)
(*   neighbouring position or the sentinel at either end; full walks.       *)
(* StepMode = "asCoded" selects the pinned index +- 1 (defect D4).          *)
(***************************************************************************)
EXTENDS Integers, Sequences, FiniteSets, TLC

CONSTANTS Keys, StepMode
VARIABLES buf
vars == <<buf>>

E == -1
NoVal == -999999
MaxK == CHOOSE k \in Keys : \A j \in Keys : j <= k
Probes == 0..(MaxK + 1)
Thetas == 1..(2 * MaxK + 1)
Val(k) == 1000 * k + 1
Val2(k) == 1000 * k + 2

KeysOf(b) == {b[i].k : i \in 1..Len(b)}
Sorted(b) == \A i \in 1..(Len(b) - 1) : b[i].k < b[i + 1].k

\* binary_search_by(|e| e.key.cmp(&k)) on a sorted vector
LowerBound(b, k) == Cardinality({i \in 1..Len(b) : b[i].k < k})       \* Err(index) / Ok(index), 0-based
Found(b, k) == \E i \in 1..Len(b) : b[i].k = k
LowerBound2(b, th) == Cardinality({i \in 1..Len(b) : 2 * b[i].k < th})
Found2(b, th) == \E i \in 1..Len(b) : 2 * b[i].k = th

InsertAt(b, i, x) == SubSeq(b, 1, i) \o <<x>> \o SubSeq(b, i + 1, Len(b))       \* Vec::insert(i, x), 0-based i
RemoveAt(b, i) == IF Assert(i >= 0 /\ i < Len(b), <<"Vec::remove out of bounds", i>>)
                  THEN SubSeq(b, 1, i) \o SubSeq(b, i + 2, Len(b)) ELSE b      \* Vec::remove(i), 0-based i
At(b, i) == IF Assert(i >= 0 /\ i < Len(b), <<"get_unchecked out of bounds", i>>) THEN b[i + 1] ELSE [k |-> 0, v |-> 0]

FirstIndexLess(b, k) == IF Found(b, k) THEN LowerBound(b, k) ELSE IF LowerBound(b, k) > 0 THEN LowerBound(b, k) - 1 ELSE E
FirstIndexLessBy(b, th) == IF Found2(b, th) THEN LowerBound2(b, th) ELSE IF LowerBound2(b, th) > 0 THEN LowerBound2(b, th) - 1 ELSE E
GetValue(b, k) == IF Found(b, k) THEN At(b, LowerBound(b, k)).v ELSE NoVal

IndexAfter(b, i) == IF StepMode = "asCoded" THEN i + 1 ELSE IF i + 1 < Len(b) THEN i + 1 ELSE E
IndexBefore(b, i) == IF StepMode = "asCoded" THEN (IF Assert(i - 1 >= 0, "attempt to subtract with overflow") THEN i - 1 ELSE E)
                     ELSE IF i > 0 THEN i - 1 ELSE E

Init == buf = <<>>

DoInsert(k) ==
  /\ k \notin KeysOf(buf)
  /\ buf' = InsertAt(buf, LowerBound(buf, k), [k |-> k, v |-> Val(k)])
  /\ Assert({<<x.k, x.v>> : x \in {buf'[i] : i \in 1..Len(buf')}} = {<<x.k, x.v>> : x \in {buf[i] : i \in 1..Len(buf)}} \cup {<<k, Val(k)>>},
            <<"insert refinement", k>>)

DoDelete(k) ==
  /\ buf' = IF Found(buf, k) THEN RemoveAt(buf, LowerBound(buf, k)) ELSE buf
  /\ Assert(KeysOf(buf') = KeysOf(buf) \ {k}, <<"delete refinement", k>>)

DoDeleteByHandle(p) ==
  LET h == FirstIndexLess(buf, p) IN
  /\ h # E
  /\ buf' = RemoveAt(buf, h)
  /\ Assert(KeysOf(buf') = KeysOf(buf) \ {At(buf, h).k}, "delete_by_index removed another entry")

DoWrite(p) ==
  LET h == FirstIndexLess(buf, p) IN
  /\ h # E /\ At(buf, h).v = Val(At(buf, h).k)
  /\ buf' = [buf EXCEPT ![h + 1].v = Val2(At(buf, h).k)]

DoClear == buf' = <<>>

Next == \/ \E k \in Keys : DoInsert(k) \/ DoDelete(k)
        \/ \E p \in Probes : DoDeleteByHandle(p) \/ DoWrite(p)
        \/ DoClear
Spec == Init /\ [][Next]_vars

\* ---- invariants ------------------------------------------------------------------------
PredKey(p)   == LET S == {k \in KeysOf(buf) : k <= p} IN IF S = {} THEN -1 ELSE CHOOSE k \in S : \A j \in S : j <= k
PredKey2(th) == LET S == {k \in KeysOf(buf) : 2 * k <= th} IN IF S = {} THEN -1 ELSE CHOOSE k \in S : \A j \in S : j <= k
SortedOK == Sorted(buf)
HandlesOK ==
  /\ \A p \in Probes : LET h == FirstIndexLess(buf, p) IN IF PredKey(p) = -1 THEN h = E ELSE h # E /\ At(buf, h).k = PredKey(p)
  /\ \A th \in Thetas : LET h == FirstIndexLessBy(buf, th) IN IF PredKey2(th) = -1 THEN h = E ELSE h # E /\ At(buf, h).k = PredKey2(th)
  /\ \A p \in Probes : FirstIndexLess(buf, p) = FirstIndexLessBy(buf, 2 * p)
LookupOK == \A p \in Probes : GetValue(buf, p) = (IF p \in KeysOf(buf) THEN (CHOOSE i \in 1..Len(buf) : buf[i].k = p) * 0 + buf[CHOOSE i \in 1..Len(buf) : buf[i].k = p].v ELSE NoVal)
StepsOK == \A i \in 0..(Len(buf) - 1) :
   /\ IndexAfter(buf, i) = (IF i = Len(buf) - 1 THEN E ELSE i + 1)
   /\ IndexBefore(buf, i) = (IF i = 0 THEN E ELSE i - 1)
   /\ (IndexAfter(buf, i) # E => At(buf, IndexAfter(buf, i)).k > At(buf, i).k)
Inv == SortedOK /\ HandlesOK /\ LookupOK /\ StepsOK
=============================================================================
