CONSTANTS
  Keys = {1, 2, 3, 4, 5, 6}
  Cap0 = 0
  Writes = FALSE
  AfterMode = "fixed"
  Emit = FALSE
INIT Init
NEXT Next
VIEW View
INVARIANTS Structure GrowthOK HandlesOK LookupOK StepsOK IsEmptyOK EmitCover
CHECK_DEADLOCK FALSE
