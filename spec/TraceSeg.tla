------------------------------ MODULE TraceSeg ------------------------------
(***************************************************************************)
(* Layer 2: validation of a trace recorded from the real SegExpTree         *)
(* (32 buckets, H = 5) against SegRef, with buckets computed by SegLayout   *)
(* from the logged (normalised) offsets and places by SegHeap.              *)
(***************************************************************************)
EXTENDS SegLayout, SegHeap, Sequences, Json, IOUtils, FiniteSetsExt      \* SegHeap with H = 5 (cfg)

VARIABLES l, vals, now,
          len,       \* (normalised) domain length of the tree under test, 0 = none
          shift,     \* j: offsets in the log are real offsets >> j
          pw         \* bucket width 2^Scale(len), computed once per tree
vars == <<l, vals, now, len, shift, pw>>

R == INSTANCE SegRef

MinTime == (-2147483647 - 1)      \* no query time has been supplied yet: any time may follow
Rec == ndJsonDeserialize(IOEnv.TRACE)
Ev  == Rec[l]
Has(f) == f \in DOMAIN Ev
V(tag, cond, info) == IF cond THEN TRUE ELSE PrintT("VIOL " \o ToJson(<<tag, l, info>>))
Breach(info)       == PrintT("BREACH " \o ToJson(<<l, info>>))

\* subset / equality of two (possibly very large, lazily defined) sets by cardinalities: TLC enumerates and
\* sorts each set once, where `\subseteq` asks the right-hand side for membership element by element
SubsetC(A, X) == Cardinality(A \cup X) = Cardinality(X)
EqualC(A, X)  == SubsetC(A, X) /\ Cardinality(A) = Cardinality(X)
\* (violation reports quote at most 40 elements)
Brief(sq)   == IF Len(sq) <= 40 THEN sq ELSE SubSeq(sq, 1, 40) \o <<"... of", Len(sq)>>
BriefSet(S) == IF Cardinality(S) <= 40 THEN S ELSE <<"a set of", Cardinality(S)>>

B(off) == off \div pw
InDomain(off) == off >= 0 /\ off <= len - 1

\* stored copies as logged: ch = << <<place, << <<id, e>>, ... >> >>, ... >> (non-empty places only)
IdsAt(p) == LET S == {i \in 1..Len(Ev.ch) : Ev.ch[i][1] = p} IN
            IF S = {} THEN <<>> ELSE LET c == Ev.ch[CHOOSE i \in S : TRUE][2] IN [k \in 1..Len(c) |-> c[k][1]]
PlacesLogged == {Ev.ch[i][1] : i \in 1..Len(Ev.ch)}
AllCopies == UNION {{<<Ev.ch[i][1], Ev.ch[i][2][k][1], Ev.ch[i][2][k][2]>> : k \in 1..Len(Ev.ch[i][2])} : i \in 1..Len(Ev.ch)}
SeqSet(s) == {s[i] : i \in 1..Len(s)}
PlacesOf(id) == {p \in PlacesLogged : id \in SeqSet(IdsAt(p))}

\* every value that is still unexpired keeps a copy at every place of its range
KeepsLive(S, t) == \A x \in S : x.e >= t => \A p \in PlaceTab[<<x.a, x.b>>] : x.id \in SeqSet(IdsAt(p))
\* C16: only copies of unexpired values are stored (after a complete whole-domain scan), each at a
\* place where that value belongs, at most once.  (That no copy of an unexpired value is MISSING is
\* KeepsLive, a C03 matter.)
OnlyLiveCopies(S, t) ==
  /\ \A c \in AllCopies : c[3] >= t
  /\ \A p \in PlacesLogged : LET ids == IdsAt(p) IN
        /\ R!NoDup(ids)
        /\ SeqSet(ids) \subseteq {x.id : x \in {x \in S : x.e >= t /\ p \in PlaceTab[<<x.a, x.b>>]}}

StepNew ==
  /\ vals' = {} /\ now' = MinTime
  /\ shift' = Ev.j
  /\ pw' = IF Ev.out = "ok" /\ Ev.built = 1 /\ P(Ev.len) >= 5 THEN Width(Ev.len) ELSE 1
  /\ IF Ev.out # "ok"
     THEN /\ len' = 0
          /\ V("OUTCOME", FALSE, <<"construction ended with", Ev.out>>)
          /\ V("LAYOUT", Ev.j = 0 /\ Ev.len <= 16, <<"no tree was constructed for a domain of", Ev.len, "points (shifted by", Ev.j, "): construction ended with", Ev.out>>)
     ELSE /\ len' = IF Ev.built = 1 THEN Ev.len ELSE 0
          /\ V("LAYOUT", (Ev.built = 1) <=> (IF Ev.j = 0 THEN Ev.len > 16 ELSE TRUE), <<"built", Ev.built, "for", Ev.len, "points">>)
          /\ (Ev.built = 1 /\ P(Ev.len) >= 5 => V("LAYOUT", Ev.count = Count(Ev.len), <<"chunks", Ev.count, "expected", Count(Ev.len), "len", Ev.len>>))

Same == vals' = vals /\ now' = now

OpOk ==
  CASE Ev.op = "ins" ->
         IF InDomain(Ev.a) /\ InDomain(Ev.b) /\ Ev.a <= Ev.b
         THEN LET a == B(Ev.a) b == B(Ev.b) IN
              /\ vals' = vals \cup {[id |-> Ev.id, a |-> a, b |-> b, e |-> Ev.e]} /\ now' = now
              /\ V("PLACES", PlacesOf(Ev.id) = PlaceTab[<<a, b>>] /\ Cardinality(PlacesOf(Ev.id)) <= 8,
                   <<"value", Ev.id, "buckets", a, b, "stored at", PlacesOf(Ev.id), "expected", PlaceTab[<<a, b>>]>>)
              /\ V("PLACES", \A p \in PlacesOf(Ev.id) : Cardinality({k \in 1..Len(IdsAt(p)) : IdsAt(p)[k] = Ev.id}) = 1,
                   <<"value", Ev.id, "stored twice at one place">>)
         ELSE Same /\ Breach(<<"insert range outside the domain", Ev.a, Ev.b, len>>)
    [] Ev.op = "bulk" ->         \* scale runs: n values with one range and expiration, inserted by one observed call
         IF InDomain(Ev.a) /\ InDomain(Ev.b) /\ Ev.a <= Ev.b /\ Ev.n >= 0
         THEN vals' = vals \cup R!BulkVals(Ev.id, Ev.n, B(Ev.a), B(Ev.b), Ev.e) /\ now' = now
         ELSE Same /\ Breach(<<"bulk insert outside the domain", Ev.a, Ev.b, len>>)
    [] Ev.op = "query" ->
         IF InDomain(Ev.a) /\ InDomain(Ev.b) /\ Ev.a <= Ev.b /\ R!CanQuery(Ev.t)
         THEN LET c == B(Ev.a) d == B(Ev.b) IN
              /\ vals' = vals /\ now' = Ev.t
              /\ V("YIELD", R!NoDup(Ev.res) /\ SubsetC(R!Range(Ev.res), R!Expect(c, d, Ev.t)),
                   <<"query buckets", c, d, "t", Ev.t, "yielded", Brief(Ev.res), "allowed", BriefSet(R!Expect(c, d, Ev.t))>>)
              /\ (Ev.take < 0 => V("COMPLETE", EqualC(R!Range(Ev.res), R!Expect(c, d, Ev.t)),
                   <<"query buckets", c, d, "t", Ev.t, "yielded", Brief(Ev.res), "expected", BriefSet(R!Expect(c, d, Ev.t))>>))
              /\ (Ev.take >= 0 => V("COMPLETE", Len(Ev.res) = IF Cardinality(R!Expect(c, d, Ev.t)) < Ev.take THEN Cardinality(R!Expect(c, d, Ev.t)) ELSE Ev.take,
                   <<"take", Ev.take, "yielded", Ev.res, "available", R!Expect(c, d, Ev.t)>>))
              /\ (Has("ch") => V("KEEP", KeepsLive(vals, Ev.t), "an unexpired value lost a stored copy"))
              /\ (Has("ch") /\ Ev.whole = 1 => V("COPIES", OnlyLiveCopies(vals, Ev.t),
                   <<"after a complete whole-domain query at", Ev.t, "stored copies", AllCopies>>))
         ELSE Same /\ Breach(<<"query outside the contract", Ev.a, Ev.b, Ev.t, now, len>>)
    [] Ev.op = "ticks" ->        \* n complete queries over one range at the times t, t + 1, .., t + n - 1, observed as one call
         IF InDomain(Ev.a) /\ InDomain(Ev.b) /\ Ev.a <= Ev.b /\ R!CanQuery(Ev.t) /\ Ev.n >= 1
         THEN LET c == B(Ev.a) d == B(Ev.b)
                  over == {x \in vals : x.a <= d /\ c <= x.b /\ x.e >= Ev.t}
                  \* a query yields something as long as the time does not exceed the latest expiration in range
                  want == IF over = {} THEN 0
                          ELSE LET m == FoldSet(LAMBDA x, acc : IF x.e > acc THEN x.e ELSE acc, Ev.t, over)
                               IN IF m - Ev.t + 1 > Ev.n THEN Ev.n ELSE m - Ev.t + 1
              IN /\ vals' = vals /\ now' = Ev.t + Ev.n - 1
                 /\ V("YIELD", Ev.nonempty = want, <<"of", Ev.n, "queries from time", Ev.t, "on,", Ev.nonempty, "yielded something; expected", want>>)
         ELSE Same /\ Breach(<<"queries outside the contract", Ev.a, Ev.b, Ev.t, now, len>>)
    [] Ev.op = "queryn" ->       \* a query whose yield is logged in summary: n items, nd distinct ids, the first 40 ids
         IF InDomain(Ev.a) /\ InDomain(Ev.b) /\ Ev.a <= Ev.b /\ R!CanQuery(Ev.t)
         THEN LET ex == R!Expect(B(Ev.a), B(Ev.b), Ev.t)
                  ne == Cardinality(ex) IN
              /\ vals' = vals /\ now' = Ev.t
              /\ V("YIELD", Ev.nd = Ev.n /\ Ev.n <= ne /\ SubsetC(R!Range(Ev.res), ex),
                   <<"query yielded", Ev.n, "items,", Ev.nd, "distinct;", ne, "values are allowed; first items", Ev.res>>)
              /\ V("COMPLETE", Ev.n = IF Ev.take < 0 \/ ne < Ev.take THEN ne ELSE Ev.take,
                   <<"query yielded", Ev.n, "items of", ne, "take", Ev.take>>)
         ELSE Same /\ Breach(<<"query outside the contract", Ev.a, Ev.b, Ev.t, now, len>>)
    [] Ev.op = "clear" ->
         /\ vals' = {} /\ now' = MinTime
         /\ V("CLEARED", Ev.ch = <<>>, <<"copies stored after clear", Ev.ch>>)
    [] Ev.op = "matrix" ->       \* C15: domain [0,31]; row = query ranges c*32+d that yield the value
         /\ Same
         /\ V("MATRIX", SeqSet(Ev.row) = {q[1] * 32 + q[2] : q \in {q \in Ranges : Overlap(Ev.a, Ev.b, q[1], q[2])}} /\ Ev.dup = 0,
              <<"insert range", Ev.a, Ev.b, "is yielded for", Len(Ev.row), "query ranges, duplicates", Ev.dup>>)
    [] Ev.op = "point" ->        \* C14: a single-point value at x: where it is stored, who sees it
         /\ Same
         /\ V("LAYOUT", SeqSet(Ev.places) = {31 + B(Ev.x)}, <<"point", Ev.x, "stored at", Ev.places, "expected place", 31 + B(Ev.x)>>)
         /\ V("LAYOUT", \A i \in 1..Len(Ev.probes) : (Ev.probes[i][2] = 1) <=> (B(Ev.probes[i][1]) = B(Ev.x)),
              <<"point", Ev.x, "bucket", B(Ev.x), "seen by probes", Ev.probes>>)
         /\ V("LAYOUT", \A i \in 1..(Len(Ev.probes) - 1) :
                 Ev.probes[i][1] <= Ev.probes[i + 1][1] /\ B(Ev.probes[i][1]) <= B(Ev.probes[i + 1][1]), "probes not ascending")
    [] OTHER -> Same /\ Breach(<<"unknown op", Ev.op>>)

\* an injected panic of the expiration accessor left a query (C18): the values are all still there
OpUnwound ==
  /\ vals' = vals
  /\ now' = IF Has("t") THEN Ev.t ELSE now
  /\ (Ev.op = "query" =>
        /\ V("TORN", R!NoDup(Ev.res) /\ R!Range(Ev.res) \subseteq R!Expect(B(Ev.a), B(Ev.b), Ev.t), <<"yielded before the panic", Ev.res>>)
        /\ (Has("ch") => V("TORN", KeepsLive(vals, Ev.t), "an unexpired value lost a stored copy when a callback panicked")))

StepOp ==
  /\ len' = len /\ shift' = shift /\ pw' = pw
  /\ IF len = 0 THEN Same /\ Breach("operation on a tree that was not built")
     ELSE CASE Ev.out = "ok" -> OpOk
            [] Ev.out = "unwound" -> OpUnwound
            [] OTHER -> Same /\ V("OUTCOME", FALSE, <<Ev.op, "ended with", Ev.out, IF Has("msg") THEN Ev.msg ELSE "">>)

Step ==
  /\ l <= Len(Rec)
  /\ l' = l + 1
  /\ CASE Ev.ev = "new" \/ (Ev.ev = "op" /\ Ev.op = "new") -> StepNew
       [] Ev.ev = "op" -> StepOp
       [] OTHER -> UNCHANGED <<vals, now, len, shift, pw>> /\ Breach(<<"unknown event", Ev.ev>>)

Init == l = 1 /\ vals = {} /\ now = MinTime /\ len = 0 /\ shift = 0 /\ pw = 1
Spec == Init /\ [][Step]_vars
Accepted ==
  IF TLCGet("stats").diameter - 1 = Len(Rec) THEN PrintT(<<"ACCEPTED", Len(Rec)>>)
  ELSE Print(<<"REJECTED", TLCGet("stats").diameter, Len(Rec)>>, FALSE)
=============================================================================
