------------------------------ MODULE MCOrd ------------------------------
(***************************************************************************)
(* Exhaustive model of MapTree / SetTree (two hand-made copies of the same *)
(* algorithm; the set adds the neighbour steps): all histories of insert / *)
(* delete (present or absent key) / write through a handle / clear over a  *)
(* finite key universe, every read-only call evaluated in every reachable  *)
(* state.  Decides on the specification:                                   *)
(*   C04, C05  refinement of OrdRef (contents as a map over distinct keys) *)
(*   C02, C11  WellFormed, PoolOK, arena growth bound                      *)
(*   C08       predecessor handles (key and comparator form)               *)
(*   C09       neighbour steps and full walks (set)                        *)
(*   C17       an insertion leaves the entity of every stored slot alone   *)
(*   C12       clear leads back to the initial abstract state              *)
(*   C10       no out-of-bounds slot access (asserting accessor N)         *)
(* States are identified up to renaming of arena slots (VIEW).             *)
(***************************************************************************)
EXTENDS RBArena

CONSTANTS Keys, Cap0,
          Writes,      \* TRUE: values can be overwritten through a handle (second version)
          AfterMode,   \* "fixed" or "asCoded" (defect D3)
          Emit         \* TRUE: print one shortest path per distinct state

VARIABLES T, peak, path
vars == <<T, peak, path>>

I2S(i) == ToString(i)
Val(k) == 1000 * k + 1
Val2(k) == 1000 * k + 2

MaxK == CHOOSE k \in Keys : \A j \in Keys : j <= k
Probes == 0..(MaxK + 1)
Thetas == 1..(2 * MaxK + 1)

Init == T = NewTree(Cap0) /\ peak = 0 /\ path = ""

DoInsert(k) ==
  /\ k \notin KeysOf(T)
  /\ T' = Insert(T, k, Val(k))
  /\ peak' = Max(peak, Count(T'))
  /\ path' = path \o "i " \o I2S(k) \o " " \o I2S(Val(k)) \o ";"
  /\ Assert(Contents(T') = Contents(T) \cup {<<k, Val(k)>>}, <<"insert refinement", k>>)
  /\ Assert(AbsPool(T') = AbsTake(AbsPool(T)), "insert is not one Take / GrowTake step of the abstract pool")
  \* C17: every stored slot keeps its entity
  /\ Assert(\A s \in Reach(T) : s \in Reach(T') /\ N(T', s).k = N(T, s).k /\ N(T', s).v = N(T, s).v,
            <<"insert moved an entity", k>>)

\* delete by key and delete through the handle of that key are the same removal
DoDelete(k) ==
  /\ T' = Delete(T, k)
  /\ peak' = peak
  /\ path' = path \o (IF k \in KeysOf(T) /\ k % 2 = 0 THEN "dh " ELSE "d ") \o I2S(k) \o ";"
  /\ Assert(Contents(T') = {kv \in Contents(T) : kv[1] # k}, <<"delete refinement", k>>)
  /\ Assert(AbsPool(T') = (IF k \in KeysOf(T) THEN AbsGive(AbsPool(T)) ELSE AbsPool(T)), "delete is not one Give step of the abstract pool")
  /\ Assert(k \in KeysOf(T) => SearchFirstLess(T, T.root, k, E) = FindIndex(T, T.root, k), "handle of k is the slot delete finds")

DoWrite(k) ==
  /\ Writes
  /\ k \in KeysOf(T)
  /\ LET h == SearchFirstLess(T, T.root, k, E) IN
     /\ N(T, h).v = Val(k)
     /\ T' = [T EXCEPT !.nd[h + 1].v = Val2(k)]
  /\ peak' = peak
  /\ path' = path \o "w " \o I2S(k) \o " " \o I2S(Val2(k)) \o ";"

DoClear ==
  /\ T' = Clear(T)
  /\ peak' = peak
  /\ path' = path \o "c;"
  /\ Assert(Contents(T') = {} /\ T'.root = E /\ Len(T'.free) = Len(T'.nd) - 1, "clear: entries left or slots not returned")
  /\ Assert(AbsPool(T') = AbsGives(AbsPool(T), Count(T)), "clear is not Count Give steps of the abstract pool")

Next == \/ \E k \in Keys : DoInsert(k) \/ DoDelete(k) \/ DoWrite(k)
        \/ DoClear

Spec == Init /\ [][Next]_vars

View == <<Canon(T, T.root), Len(T.free), Len(T.nd), T.ucap, peak>>

\* ---- invariants ------------------------------------------------------------------------
Structure == WellFormed(T) /\ PoolOK(T) /\ (Shape(T) <=> ShapeByInDegree(T))
GrowthOK  == Len(T.nd) <= 3 * (peak + 1) + Max(Cap0, 8)

SlotOfKey(k) == CHOOSE s \in Reach(T) : N(T, s).k = k
PredKey(p)   == LET S == {k \in KeysOf(T) : k <= p} IN IF S = {} THEN -1 ELSE CHOOSE k \in S : \A j \in S : j <= k
PredKey2(th) == LET S == {k \in KeysOf(T) : 2 * k <= th} IN IF S = {} THEN -1 ELSE CHOOSE k \in S : \A j \in S : j <= k

\* C08: both forms, every probe
HandlesOK ==
  /\ \A p \in Probes : LET h == SearchFirstLess(T, T.root, p, E) IN
        IF PredKey(p) = -1 THEN h = E ELSE h # E /\ N(T, h).k = PredKey(p)
  /\ \A th \in Thetas : LET h == SearchFirstLessBy(T, T.root, th, E) IN
        IF PredKey2(th) = -1 THEN h = E ELSE h # E /\ N(T, h).k = PredKey2(th)
  /\ \A p \in Probes : SearchFirstLess(T, T.root, p, E) = SearchFirstLessBy(T, T.root, 2 * p, E)

\* look-ups (C04 / C05)
RECURSIVE SearchValue(_, _, _)
SearchValue(TT, i, k) == IF i = E THEN -999999 ELSE IF k = N(TT, i).k THEN N(TT, i).v
                         ELSE IF k < N(TT, i).k THEN SearchValue(TT, N(TT, i).l, k) ELSE SearchValue(TT, N(TT, i).r, k)
LookupOK == \A p \in Probes : SearchValue(T, T.root, p) =
               (IF p \in KeysOf(T) THEN (CHOOSE kv \in Contents(T) : kv[1] = p)[2] ELSE -999999)

\* C09: neighbour steps from every stored entry, and the two full walks
StepAfter(i) == IF AfterMode = "asCoded" THEN IndexAfterAsCoded(T, i) ELSE IndexAfter(T, i)
NextKeyOf(k) == LET S == {j \in KeysOf(T) : j > k} IN IF S = {} THEN -1 ELSE CHOOSE j \in S : \A x \in S : j <= x
PrevKeyOf(k) == LET S == {j \in KeysOf(T) : j < k} IN IF S = {} THEN -1 ELSE CHOOSE j \in S : \A x \in S : x <= j
RECURSIVE WalkF(_, _)
WalkF(i, fuel) == IF i = E \/ fuel = 0 THEN <<>> ELSE <<N(T, i).k>> \o WalkF(StepAfter(i), fuel - 1)
RECURSIVE WalkB(_, _)
WalkB(i, fuel) == IF i = E \/ fuel = 0 THEN <<>> ELSE <<N(T, i).k>> \o WalkB(IndexBefore(T, i), fuel - 1)
Reverse(s) == [i \in 1..Len(s) |-> s[Len(s) + 1 - i]]
StepsOK ==
  /\ \A s \in Reach(T) :
        /\ LET a == StepAfter(s) IN IF NextKeyOf(N(T, s).k) = -1 THEN a = E ELSE a # E /\ N(T, a).k = NextKeyOf(N(T, s).k)
        /\ LET b == IndexBefore(T, s) IN IF PrevKeyOf(N(T, s).k) = -1 THEN b = E ELSE b # E /\ N(T, b).k = PrevKeyOf(N(T, s).k)
  /\ (T.root # E =>
        /\ WalkF(LeftMin(T, T.root), Count(T) + 1) = KeySeq(T)
        /\ WalkB(RightMax(T, T.root), Count(T) + 1) = Reverse(KeySeq(T)))

IsEmptyOK == (T.root = E) <=> (Contents(T) = {})

EmitCover == Emit => PrintT("COVER " \o I2S(Cap0) \o "|" \o path)
=============================================================================
