------------------------------ MODULE IndOrd ------------------------------
(***************************************************************************)
(* One-step ("inductive") model of MapTree / SetTree.                      *)
(*                                                                         *)
(* MCOrd explores the states *reachable* over a small key universe.  This  *)
(* module starts from EVERY valid state instead - every red-black tree     *)
(* with at most MaxN nodes (root red or black; shapes a 9-key history      *)
(* never produces included), stored in an arena that is exactly full, or   *)
(* has free slots - and takes ONE step of every kind from it: insert into  *)
(* every gap, delete every key (by key and through its handle), delete an  *)
(* absent key, write through a handle, clear.  The invariants of MCOrd     *)
(* (WellFormed, PoolOK, handles, look-ups, neighbour steps) are checked on *)
(* the start states - they hold there by construction, which guards the    *)
(* generator - and on every successor; the in-action assertions of MCOrd   *)
(* (contents refinement, no entity moved by an insertion, one Take / Give  *)
(* step of the abstract pool, clear returns every slot) on every           *)
(* transition.  Together: the structural invariant is preserved by every   *)
(* operation from every valid tree of up to MaxN nodes, i.e. it is         *)
(* inductive for that size, whatever history produced the tree.            *)
(*                                                                         *)
(* With Emit = TRUE every start state is printed in the snapshot syntax of *)
(* the traces; the harness loads each one into the real collection (hook   *)
(* verif_load) and makes the same steps there, TLC validating the result.  *)
(***************************************************************************)
EXTENDS MCOrd, RBShapes

CONSTANTS MaxN,        \* trees with 0..MaxN nodes
          MinN         \* (lets a run be split by size)

VARIABLE phase
ivars == <<T, peak, path, phase>>

STab == ShapeTab(MaxN)

\* stored keys are the even numbers 2, 4, .., 2n; every gap (odd key) can be inserted into
KeyOfRank(r) == 2 * r

\* arena variants of one shape: exactly full (the next insert grows the arena by ucap) with the
\* free-list capacity of a new pool and with a doubled one; two free slots; free list at capacity
\* (the next put_back grows the Vec)
Variants(n) == {<<0, 8>>, <<0, Max(8, 2 * n)>>, <<2, 8>>, <<2, 2>>}

StartOf(s, n, var) == Relabel(Arena(s, var[1], var[2]), n, KeyOfRank, LAMBDA r : Val(2 * r), LAMBDA r : 0)

IndInit == /\ \E n \in MinN..MaxN : \E s \in ShapesOfSize(STab, n) : \E var \in Variants(n) : T = StartOf(s, n, var)
           /\ peak = Count(T)
           /\ path = ""
           /\ phase = 0

\* one step of every kind (the gaps above 2 * Count + 1 are all the same gap)
IndNext == /\ phase = 0
           /\ phase' = 1
           /\ \/ \E k \in 1..(2 * Count(T) + 1) : DoInsert(k) \/ DoDelete(k) \/ DoWrite(k)
              \/ DoClear

IndSpec == IndInit /\ [][IndNext]_ivars

\* Invariants.  The read-only calls are evaluated in the start states only: a successor with at most
\* MaxN nodes that satisfies IndStructure is (up to the numbering of its slots, which no predicate
\* depends on) one of the start states.
IndStructure == WellFormed(T) /\ PoolOK(T)
IndQueries   == phase = 0 => (HandlesOK /\ LookupOK /\ StepsOK /\ IsEmptyOK)

\* the number of start states is the number of red-black trees (OEIS-style count, cross-checked
\* by the driver against an independent count)
EmitState == (Emit /\ phase = 0) => PrintT("STATE " \o SnapTxt(T))
=============================================================================
