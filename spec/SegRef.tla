------------------------------ MODULE SegRef ------------------------------
(***************************************************************************)
(* Layer 0: what a caller of the segment tree may rely on (C03, C16, C12).  *)
(* State: the values inserted since the last clear, each with its BUCKET    *)
(* range [a,b] and expiration, and the last query time.  A query over       *)
(* buckets [c,d] at time t must yield - when consumed completely - exactly  *)
(* the values with e >= t whose bucket range overlaps [c,d], each once; a   *)
(* partially consumed query yields a duplicate-free part of them.  The      *)
(* order of the results is left open, as the property leaves it.            *)
(***************************************************************************)
EXTENDS Integers, Sequences, FiniteSets

VARIABLES vals,     \* set of [id, a, b, e]
          now

Init == vals = {} /\ now = 0
CanQuery(t) == t >= now

Expect(c, d, t) == {x.id : x \in {x \in vals : x.e >= t /\ x.a <= d /\ c <= x.b}}

Range(s) == {s[i] : i \in 1..Len(s)}
NoDup(s) == Cardinality(Range(s)) = Len(s)          \* no element twice (linear in the length)

\* the yield `res` of a query; complete: the iterator was consumed to its end
YieldOK(res, c, d, t, complete) ==
  /\ NoDup(res)
  /\ Range(res) \subseteq Expect(c, d, t)
  /\ (complete => Range(res) = Expect(c, d, t))

Insert(id, a, b, e) == vals' = vals \cup {[id |-> id, a |-> a, b |-> b, e |-> e]} /\ UNCHANGED now
\* a run of n insertions of values id0 .. id0 + n - 1, all with the same bucket range and expiration
BulkVals(id0, n, a, b, e) == {[id |-> id0 + i, a |-> a, b |-> b, e |-> e] : i \in 0..(n - 1)}
BulkInsert(id0, n, a, b, e) == vals' = vals \cup BulkVals(id0, n, a, b, e) /\ UNCHANGED now
Query(t) == CanQuery(t) /\ now' = t /\ UNCHANGED vals
\* n complete queries at the times t, t + 1, .., t + n - 1
Ticks(t, n) == CanQuery(t) /\ n >= 1 /\ now' = t + n - 1 /\ UNCHANGED vals
Clear == vals' = {} /\ now' = 0
=============================================================================
