INIT Init
NEXT Step
POSTCONDITION Accepted
CHECK_DEADLOCK FALSE
