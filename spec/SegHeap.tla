------------------------------ MODULE SegHeap ------------------------------
(***************************************************************************)
(* The implicit heap over 2^H buckets of src/seg/heap.rs (the code: H = 5, *)
(* 32 buckets, 63 places).  Declarative definitions of where a value with  *)
(* bucket range [a,b] is stored (PlaceRef: the maximal nodes inside the    *)
(* range) and which places a query over [a,b] visits (VisitRef: every node *)
(* meeting the range), and PlaceImpl / VisitImpl, the bottom-up loops of   *)
(* range_to_place_mask / range_to_intersect_mask transcribed level by      *)
(* level, the whole-range short-cut included.  Masks are sets of places.   *)
(***************************************************************************)
EXTENDS Integers, FiniteSets, TLC
CONSTANT H
Leaves == 2 ^ H
Sub == Leaves - 1                   \* SUB_CAPACITY: heap index of bucket 0
Nodes == 0..(2 * Leaves - 2)
Parent(i) == (i - 1) \div 2
RECURSIVE Cover(_)
Cover(i) == IF i >= Sub THEN {i - Sub} ELSE Cover(2 * i + 1) \cup Cover(2 * i + 2)
CoverF == [i \in Nodes |-> Cover(i)]
Ranges == {ab \in (0..(Leaves - 1)) \X (0..(Leaves - 1)) : ab[1] <= ab[2]}

\* the buckets under a node form an interval CLo(i)..CHi(i)   (IntervalForm, checked in MCHeap)
RECURSIVE CLo(_)
CLo(i) == IF i >= Sub THEN i - Sub ELSE CLo(2 * i + 1)
RECURSIVE CHi(_)
CHi(i) == IF i >= Sub THEN i - Sub ELSE CHi(2 * i + 2)
CLoF == [i \in Nodes |-> CLo(i)]
CHiF == [i \in Nodes |-> CHi(i)]
Inside(i, a, b) == a <= CLoF[i] /\ CHiF[i] <= b        \* Cover(i) \subseteq a..b
Meets(i, a, b)  == CLoF[i] <= b /\ a <= CHiF[i]        \* Cover(i) \cap a..b # {}

\* stored at: the maximal nodes inside the range;  visited: every node meeting the range
PlaceRef(a, b) == {i \in Nodes : Inside(i, a, b) /\ (i = 0 \/ ~Inside(Parent(i), a, b))}
VisitRef(a, b) == {i \in Nodes : Meets(i, a, b)}
Overlap(a, b, c, d) == a <= d /\ c <= b
\* tables (constant-level: TLC evaluates them once)
PlaceTab == [r \in Ranges |-> PlaceRef(r[1], r[2])]
VisitTab == [r \in Ranges |-> VisitRef(r[1], r[2])]

\* ---- transcription -------------------------------------------------------------------
Fill(a, b) == (a + Sub)..(b + Sub)          \* range_to_fill_mask: the leaf bits of the range

\* one level: pairs (lt, lt+1) for lt = level, level+2, ..., parent pt = lt >> 1
RECURSIVE VisitLoop(_, _)
VisitLoop(w, level) ==
  IF level = 0 THEN w
  ELSE LET cnt == (level + 1) \div 2
           add == {(level + 2 * j) \div 2 : j \in {j \in 0..(cnt - 1) : (level + 2 * j) \in w \/ (level + 2 * j + 1) \in w}}
       IN VisitLoop(w \cup add, (level + 1) \div 2 - 1)
VisitImpl(a, b) == VisitLoop(Fill(a, b), Sub)

RECURSIVE PlaceLoop(_, _, _)
PlaceLoop(w, m, level) ==
  IF level = 0 THEN m
  ELSE LET cnt  == (level + 1) \div 2
           J    == 0..(cnt - 1)
           both == {j \in J : (level + 2 * j) \in w /\ (level + 2 * j + 1) \in w}
           add  == {(level + 2 * j) \div 2 : j \in both}
           emit == {level + 2 * j : j \in {j \in J \ both : (level + 2 * j) \in w}}
                   \cup {level + 2 * j + 1 : j \in {j \in J \ both : (level + 2 * j + 1) \in w}}
       IN PlaceLoop(w \cup add, m \cup emit, (level + 1) \div 2 - 1)
PlaceImpl(a, b) == IF b - a = Leaves - 1 THEN {0} ELSE PlaceLoop(Fill(a, b), {}, Sub)

=============================================================================
