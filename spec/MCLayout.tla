------------------------------ MODULE MCLayout ------------------------------
(***************************************************************************)
(* C14 on the specification: for every length of a finite grid             *)
(*   built <=> more than 16 points; bucket mapping monotone, 0 at lo,       *)
(*   below 32 at hi; one common power-of-two width, the least one for       *)
(*   which 32 buckets cover the domain; storage covers every place a        *)
(*   range can use; and the scaling lemma that lets wide domains be         *)
(*   validated after shifting offsets right by j <= Scale bits.             *)
(***************************************************************************)
EXTENDS SegLayout, FiniteSets, TLC
CONSTANTS MaxLen, BigExps
VARIABLE len        \* one state per domain length

Lens == (1..MaxLen) \cup UNION {{2 ^ k - 1, 2 ^ k, 2 ^ k + 1} : k \in BigExps}
Init == len \in Lens
Next == len' = len

BuiltIff == Built(len) <=> len > 16
LayoutOK ==
  LET w == Width(len) IN
  /\ Bucket(0, len) = 0
  /\ Bucket(len - 1, len) < 32
  /\ (len - 1) \div w < 32                          \* 32 buckets of width w cover the domain
  /\ (w > 1 => (len - 1) \div (w \div 2) >= 32)      \* and no smaller power of two does
  /\ Count(len) <= 63 /\ Count(len) >= 32 + 16      \* last leaf backed; more than half of the leaves in use
Monotone == len <= MaxLen => \A o \in 0..(len - 2) : Bucket(o, len) <= Bucket(o + 1, len)
\* scaling: shifting offsets and length by j <= Scale bits keeps every bucket
Scaling == \A j \in 0..Scale(len) :
     LET len2 == ((len - 1) \div 2 ^ j) + 1 IN
     /\ Scale(len2) = Scale(len) - j
     /\ \A o \in {0, 1, len \div 3, len \div 2, len - 2, len - 1} : Bucket(o, len) = Bucket(o \div 2 ^ j, len2)
Inv == BuiltIff /\ (len > 16 => LayoutOK /\ Monotone /\ Scaling)
=============================================================================
