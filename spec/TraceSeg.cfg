CONSTANT H = 5
INIT Init
NEXT Step
POSTCONDITION Accepted
CHECK_DEADLOCK FALSE
