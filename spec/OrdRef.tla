------------------------------ MODULE OrdRef ------------------------------
(***************************************************************************)
(* Layer 0: what a caller of an ordered map / ordered set (tree or sorted  *)
(* list variant) may rely on.  State: a finite function from keys to       *)
(* values (for the set: key -> payload) and the designation of the         *)
(* handles issued since the last deletion or clear.  Handles are opaque:   *)
(* the semantics only speaks of the key a handle designates.               *)
(* Properties C04, C05, C08, C09, C12, C13, C17 are statements about it.   *)
(***************************************************************************)
EXTENDS Integers, Sequences, FiniteSets, FiniteSetsExt      \* FiniteSetsExt: FoldSet (linear; its Max / Min are quadratic under TLC)

VARIABLES m,      \* [keys -> values]
          des     \* [issued handles -> keys]

NoVal    == -999999
NoHandle == -1

Dom == DOMAIN m
Empty == [x \in {} |-> 0]
Without(f, k) == [x \in (DOMAIN f) \ {k} |-> f[x]]
With(f, k, v) == [x \in (DOMAIN f) \cup {k} |-> IF x = k THEN v ELSE f[x]]

MaxOf(S) == FoldSet(LAMBDA a, b : IF a > b THEN a ELSE b, CHOOSE x \in S : TRUE, S)
MinOf(S) == FoldSet(LAMBDA a, b : IF a < b THEN a ELSE b, CHOOSE x \in S : TRUE, S)

HasPred(p) == \E k \in Dom : k <= p
Pred(p)    == MaxOf({k \in Dom : k <= p})
\* comparator "compare 2*key with th"
HasPredBy(th) == \E k \in Dom : 2 * k <= th
PredBy(th)    == MaxOf({k \in Dom : 2 * k <= th})
HasNext(k) == \E x \in Dom : x > k
NextKey(k) == MinOf({x \in Dom : x > k})
HasPrev(k) == \E x \in Dom : x < k
PrevKey(k) == MaxOf({x \in Dom : x < k})

RefGet(k) == IF k \in Dom THEN m[k] ELSE NoVal
RefIsEmpty == Dom = {}

\* ---- contract ------------------------------------------------------------
CanInsert(k) == k \notin Dom
Issued(h)    == h \in DOMAIN des /\ des[h] \in Dom

\* ---- actions ---------------------------------------------------------------
Init == m = Empty /\ des = Empty

\* keepHandles: TRUE for the trees (C17), FALSE for the lists (positions shift)
Insert(k, v, keepHandles) ==
  /\ CanInsert(k)
  /\ m' = With(m, k, v)
  /\ des' = IF keepHandles THEN des ELSE Empty
\* a run of insertions of the keys lo, lo + step, .. <= hi, key k with value k * vm + va, in any order
BulkKeys(lo, hi, step) == {lo + i * step : i \in 0..((hi - lo) \div step)}
InBulk(x, lo, hi, step) == x >= lo /\ x <= hi /\ ((x - lo) % step) = 0        \* membership by arithmetic (linear scans)
CanBulk(lo, hi, step)  == step > 0 /\ lo <= hi /\ \A x \in Dom : ~InBulk(x, lo, hi, step)
BulkMap(lo, hi, step, vm, va) ==
  [x \in Dom \cup BulkKeys(lo, hi, step) |-> IF InBulk(x, lo, hi, step) THEN x * vm + va ELSE m[x]]
BulkInsert(lo, hi, step, vm, va, keepHandles) ==
  /\ CanBulk(lo, hi, step)
  /\ m' = BulkMap(lo, hi, step, vm, va)
  /\ des' = IF keepHandles THEN des ELSE Empty
\* a run of deletions of the keys lo, lo + step, .. <= hi (present or not), in any order
BulkWithout(lo, hi, step) == [x \in {y \in Dom : ~InBulk(y, lo, hi, step)} |-> m[x]]
BulkDelete(lo, hi, step)  == step > 0 /\ m' = BulkWithout(lo, hi, step) /\ des' = Empty
Delete(k)      == m' = Without(m, k) /\ des' = Empty          \* absent key: m unchanged
Clear          == m' = Empty /\ des' = Empty
\* a handle query issues (or re-issues) handle h for key k
Issue(h, k)    == des' = With(des, h, k) /\ UNCHANGED m
Write(h, v)    == Issued(h) /\ m' = With(m, des[h], v) /\ UNCHANGED des
DeleteBy(h)    == Issued(h) /\ m' = Without(m, des[h]) /\ des' = Empty
=============================================================================
