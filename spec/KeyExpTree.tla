------------------------------ MODULE KeyExpTree ------------------------------
(***************************************************************************)
(* Layer 1: src/key/tree.rs on top of RBArena - lazy expiry on the search  *)
(* path, the four look-ups, insertion through the expiring descent, and    *)
(* the ordered export of src/key/array.rs.                                 *)
(*                                                                         *)
(* Every operator that can call user code threads a CALLBACK LOG           *)
(*     log = << [kind, k, e, T] ... >>                                     *)
(* one entry per user callback in the order the code makes them: "exp"     *)
(* (ExpiredKey::expiration via is_not_expired), "cmp" (Ord::cmp or the     *)
(* comparator closure, with the STORED key handed to it).  T is the tree   *)
(* at the moment of the call: if that callback panics, the call unwinds    *)
(* and T is what the caller is left with (C18).  C20 is a predicate on     *)
(* the "cmp" entries.                                                      *)
(***************************************************************************)
EXTENDS RBArena

CB(kind, T, i) == [kind |-> kind, k |-> N(T, i).k, e |-> N(T, i).e, T |-> T]

\* expire_root / expire_left / expire_right: re-read the link after every removal
RECURSIVE XRoot(_, _, _)
XRoot(T, t, log) ==
  IF T.root = E THEN <<T, E, log>>
  ELSE LET lg == Append(log, CB("exp", T, T.root)) IN
       IF N(T, T.root).e > t THEN <<T, T.root, lg>> ELSE XRoot(DeleteIndex(T, T.root), t, lg)

RECURSIVE XLeft(_, _, _, _)
XLeft(T, n, t, log) ==
  LET i == N(T, n).l IN
  IF i = E THEN <<T, E, log>>
  ELSE LET lg == Append(log, CB("exp", T, i)) IN
       IF N(T, i).e > t THEN <<T, i, lg>> ELSE XLeft(DeleteIndex(T, i), n, t, lg)

RECURSIVE XRight(_, _, _, _)
XRight(T, n, t, log) ==
  LET i == N(T, n).r IN
  IF i = E THEN <<T, E, log>>
  ELSE LET lg == Append(log, CB("exp", T, i)) IN
       IF N(T, i).e > t THEN <<T, i, lg>> ELSE XRight(DeleteIndex(T, i), n, t, lg)

\* the pinned get_value (defect D1): Less => left, Greater => right
\* mode: "lt" first_less, "le" first_less_or_equal, "by" ..._by (p is theta), "get" get_value,
\*       "getAsCoded" the pinned get_value
Cmp3(mode, nk, p) == IF mode = "by" THEN (IF 2 * nk = p THEN 0 ELSE IF 2 * nk < p THEN -1 ELSE 1)
                     ELSE (IF nk = p THEN 0 ELSE IF nk < p THEN -1 ELSE 1)

\* returns <<T, result, log>>
RECURSIVE XSearch(_, _, _, _, _, _, _)
XSearch(T, i, t, p, res, mode, log) ==
  IF i = E THEN <<T, res, log>>
  ELSE
    LET nv == N(T, i).v
        lg == Append(log, CB("cmp", T, i))
        c  == Cmp3(mode, N(T, i).k, p)
    IN IF mode = "lt" THEN
         IF c = -1 THEN LET x == XRight(T, i, t, lg) IN XSearch(x[1], x[2], t, p, nv, mode, x[3])
         ELSE LET x == XLeft(T, i, t, lg) IN XSearch(x[1], x[2], t, p, res, mode, x[3])
       ELSE IF c = 0 THEN <<T, nv, lg>>
       ELSE IF mode = "getAsCoded" THEN
         IF c = -1 THEN LET x == XLeft(T, i, t, lg) IN XSearch(x[1], x[2], t, p, res, mode, x[3])
         ELSE LET x == XRight(T, i, t, lg) IN XSearch(x[1], x[2], t, p, res, mode, x[3])
       ELSE IF c = -1 THEN
         LET x == XRight(T, i, t, lg) IN XSearch(x[1], x[2], t, p, (IF mode = "get" THEN res ELSE nv), mode, x[3])
       ELSE LET x == XLeft(T, i, t, lg) IN XSearch(x[1], x[2], t, p, res, mode, x[3])

XQuery(T, t, p, dflt, mode) ==
  LET x == XRoot(T, t, <<>>) IN XSearch(x[1], x[2], t, p, dflt, mode, x[3])

\* insert_entity: the new key is compared with the stored key of every node stepped on
RECURSIVE XInsDescend(_, _, _, _, _, _, _)
XInsDescend(T, i, t, k, v, e, log) ==
  LET lg == Append(log, CB("cmp", T, i)) IN
  IF k < N(T, i).k THEN
    LET x == XLeft(T, i, t, lg) IN
    IF x[2] = E THEN <<Link(x[1], i, k, v, e, "L"), x[3]>> ELSE XInsDescend(x[1], x[2], t, k, v, e, x[3])
  ELSE
    LET x == XRight(T, i, t, lg) IN
    IF x[2] = E THEN <<Link(x[1], i, k, v, e, "R"), x[3]>> ELSE XInsDescend(x[1], x[2], t, k, v, e, x[3])

\* returns <<T, log>>; the debug_assert!(key.expiration() >= time) is the first callback
XInsert(T, k, v, e, t) ==
  LET lg0 == <<[kind |-> "exp", k |-> k, e |-> e, T |-> T]>>
      x   == XRoot(T, t, lg0) IN
  IF Assert(e >= t, "The value is already expired") /\ x[2] = E
  THEN <<InsertRoot(x[1], k, v, e), x[3]>>
  ELSE XInsDescend(x[1], x[2], t, k, v, e, x[3])

(***************************************************************************)
(* Ordered export (src/key/array.rs, as repaired): explicit-stack in-order *)
(* traversal that skips expired entries; capacity = stored entry count.    *)
(***************************************************************************)
StackNode(T, i) == [index |-> i, left |-> N(T, i).l, right |-> N(T, i).r]

RECURSIVE ExportLoop(_, _, _, _, _)
ExportLoop(T, stack, list, t, fuel) ==
  IF stack = <<>> THEN list
  ELSE IF Assert(fuel > 0, "export traversal does not terminate") /\ fuel <= 0 THEN list
  ELSE
    LET n == Len(stack)
        s == stack[n]
    IN IF s.left # E THEN
         ExportLoop(T, Append([stack EXCEPT ![n].left = E], StackNode(T, s.left)), list, t, fuel - 1)
       ELSE
         LET list1 == IF s.index # E /\ N(T, s.index).e > t THEN Append(list, N(T, s.index).v) ELSE list
             s1    == [s EXCEPT !.index = E]
         IN IF s.right # E THEN
              ExportLoop(T, Append([stack EXCEPT ![n] = [s1 EXCEPT !.right = E]], StackNode(T, s.right)), list1, t, fuel - 1)
            ELSE ExportLoop(T, SubSeq(stack, 1, n - 1), list1, t, fuel - 1)

Export(T, t) ==
  IF T.root = E THEN <<>>
  ELSE ExportLoop(T, <<StackNode(T, T.root)>>, <<>>, t, 4 * Len(T.nd) + 4)

ExportCap(T) == Len(T.nd) - Len(T.free) - 1

(***************************************************************************)
(* The pinned export (defect D2): before the traversal every arena slot is  *)
(* scanned, and a slot that "is part of the tree" and whose expiration is   *)
(* BELOW the time is removed.  Kept as a named alternative so that the      *)
(* counter-examples stay one TLC run away (AsCodedD2.cfg).  A freed slot    *)
(* keeps its stale links and entity, exactly as in the code.                *)
(***************************************************************************)
RECURSIVE PartWalk(_, _, _, _, _)
PartWalk(T, index, prev, cursor, fuel) ==           \* the loop of is_part_of_the_tree
  IF cursor = 0 \/ cursor = E \/ cursor = index \/ fuel = 0 THEN prev = T.root
  ELSE LET pi == N(T, cursor).p IN
       IF pi = E THEN cursor = T.root
       ELSE IF N(T, pi).l # cursor /\ N(T, pi).r # cursor THEN FALSE
       ELSE PartWalk(T, index, cursor, pi, fuel - 1)
IsPartOfTheTree(T, index) == PartWalk(T, index, index, N(T, index).p, Len(T.nd) + 1)

\* le = FALSE: the pinned comparison `expiration < time` (D2a);  le = TRUE: a hypothetical one-character
\* repair `<=`, which leaves the double removal of freed slots (D2b) and the unexamined moved-in
\* successor (D2c) - the reason the actual repair drops the purge altogether
RECURSIVE ExpireAllAsCoded(_, _, _, _)
ExpireAllAsCoded(T, t, i, le) ==
  IF i >= Len(T.nd) THEN T
  ELSE IF IsPartOfTheTree(T, i) /\ (IF le THEN N(T, i).e <= t ELSE N(T, i).e < t)
       THEN ExpireAllAsCoded(DeleteIndex(T, i), t, i + 1, le)
  ELSE ExpireAllAsCoded(T, t, i + 1, le)

\* the traversal without the liveness test (time -1: every stored entry is pushed)
ExportAsCoded(T, t, le) == Export(ExpireAllAsCoded(T, t, 1, le), -1)

\* the pinned capacity estimate (defect D5): 8 << (2 * black height of the left spine)
RECURSIVE LeftSpineBlack(_, _)
LeftSpineBlack(T, i) == IF N(T, i).l = E THEN 0
                        ELSE (IF N(T, N(T, i).l).c = Black THEN 1 ELSE 0) + LeftSpineBlack(T, N(T, i).l)
ExportCapAsCoded(T) == IF T.root = E THEN 8 ELSE 8 * 2 ^ (2 * (1 + LeftSpineBlack(T, T.root)))
=============================================================================
