------------------------------ MODULE SegLayout ------------------------------
(***************************************************************************)
(* src/seg/layout.rs as arithmetic on the domain length `len` = hi-lo+1 and *)
(* offsets off = x - lo.                                                    *)
(***************************************************************************)
EXTENDS Integers
RECURSIVE Log2(_)
Log2(n) == IF n <= 1 THEN 0 ELSE 1 + Log2(n \div 2)        \* ilog2
P(len) == IF len <= 1 THEN 0 ELSE Log2(len - 1) + 1          \* ceil(log2(len))
Built(len) == len >= 5 /\ P(len) >= 5                        \* Layout::new returns Some
Scale(len) == P(len) - 5
Bucket(off, len) == off \div (2 ^ Scale(len))                \* Layout::index
Count(len) == Bucket(len - 1, len) + 31 + 1                  \* Layout::count: chunks allocated
Width(len) == 2 ^ Scale(len)
=============================================================================
