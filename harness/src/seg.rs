//! Drivers for the segment tree with expiring values (SegExpTree).
//! Coordinates are logged as offsets from `lo`, shifted right by `j` bits so that they fit TLC's
//! 32-bit integers; `j` never exceeds the layout's own bucket shift, so buckets are preserved
//! (the scaling lemma is checked by TLC in MCLayout).
use crate::inst::SV;
use crate::out::*;
use i_tree::seg::exp::{SegExpCollection, SegRange};
use i_tree::seg::tree::SegExpTree;
use std::fmt::Write as FmtWrite;

pub trait Coord: Copy + std::fmt::Debug {
    const NAME: &'static str;
    fn from_i64(v: i64) -> Self;
}
impl Coord for i32 {
    const NAME: &'static str = "i32";
    fn from_i64(v: i64) -> Self {
        v as i32
    }
}
impl Coord for u32 {
    const NAME: &'static str = "u32";
    fn from_i64(v: i64) -> Self {
        v as u32
    }
}
impl Coord for i64 {
    const NAME: &'static str = "i64";
    fn from_i64(v: i64) -> Self {
        v
    }
}

/// number of bits by which offsets are shifted for the log (0 for domains below 2^30 points)
fn shift_for(len: u64) -> u32 {
    let bits = 64 - (len - 1).max(1).leading_zeros(); // bits of len-1
    bits.saturating_sub(30)
}

pub struct SegSession<'a, R: Coord>
where
    i64: From<R>,
{
    pub t: Option<SegExpTree<R, i32, SV>>,
    pub tr: &'a mut Trace,
    pub lo: i64,
    pub hi: i64,
    pub j: u32,
    pub now: i32,
    pub next_id: i32,
    pub qcount: u64,
}

fn chunks_json<R>(t: &SegExpTree<R, i32, SV>) -> String {
    let ch = t.verif_chunks();
    let mut o = String::from("\"ch\":[");
    let mut first = true;
    for (p, c) in ch.iter().enumerate() {
        if c.is_empty() {
            continue;
        }
        if !first {
            o.push(',');
        }
        first = false;
        let _ = write!(o, "[{},[", p);
        for (i, (v, _m)) in c.iter().enumerate() {
            if i > 0 {
                o.push(',');
            }
            let _ = write!(o, "[{},{}]", v.id, v.e);
        }
        o.push_str("]]");
    }
    o.push(']');
    o
}

impl<'a, R: Coord> SegSession<'a, R>
where
    i64: From<R>,
{
    /// distinct (stored copies with ids abstracted to ranks, call) pairs
    fn count_pair(&mut self, call: &str) {
        let ch = self.t.as_ref().unwrap().verif_chunks();
        let mut st = String::new();
        for (p, c) in ch.iter().enumerate() {
            if !c.is_empty() {
                let _ = write!(st, "{}:", p);
                for (v, _) in c {
                    let _ = write!(st, "{},", v.e - self.now);
                }
            }
        }
        self.tr.pair(&st, call);
    }

    pub fn off(&self, x: i64) -> i64 {
        (((x as i128) - (self.lo as i128)) >> self.j) as i64
    }

    /// constructs a tree over [lo, hi] and logs the construction (C14)
    pub fn open(tr: &'a mut Trace, lo: i64, hi: i64) -> Self {
        let len = ((hi as i128) - (lo as i128) + 1) as u64;
        let j = shift_for(len);
        let desc = format!("\"ev\":\"new\",\"coll\":\"SegExpTree<{}>\",\"len\":{},\"j\":{},\"dom\":\"{}:{}\"", R::NAME, ((len - 1) >> j) + 1, j, lo, hi);
        tr.pre(&format!("\"op\":\"new\",{},\"out\":\"aborted\"", &desc["\"ev\":\"new\",".len()..]));
        let o = observe(0, || SegExpTree::<R, i32, SV>::new(SegRange { min: R::from_i64(lo), max: R::from_i64(hi) }));
        let mut t = None;
        let mut extra = String::new();
        let fields = out_fields(&o);
        match o.out {
            Outcome::Ok(Some(tree)) => {
                let count = tree.verif_chunks().len();
                let _ = write!(extra, ",\"built\":1,\"count\":{}", count);
                // resource cut-off, not a verdict: a tree that reports an absurd amount of storage is
                // logged (TLC judges the count) and then left alone - every snapshot would copy it all
                if count <= 4096 {
                    t = Some(tree);
                }
            }
            Outcome::Ok(None) => extra.push_str(",\"built\":0,\"count\":0"),
            _ => {}
        }
        tr.line(&format!("{}{},{}", desc, extra, fields));
        SegSession { t, tr, lo, hi, j, now: 0, next_id: 1, qcount: 0 }
    }

    pub fn insert(&mut self, a: i64, b: i64, e: i32) -> i32 {
        let id = self.next_id;
        self.next_id += 1;
        let desc = format!("\"op\":\"ins\",\"id\":{},\"a\":{},\"b\":{},\"e\":{},\"raw\":\"{}:{}\"", id, self.off(a), self.off(b), e, a, b);
        self.count_pair(&format!("ins {} {} {}", self.off(a), self.off(b), e));
        self.tr.pre(&format!("{},\"out\":\"aborted\"", desc));
        let t = self.t.as_mut().unwrap();
        let o = observe(0, || t.insert_by_range(SegRange { min: R::from_i64(a), max: R::from_i64(b) }, SV { id, e }));
        let f = out_fields(&o);
        let ch = chunks_json(self.t.as_ref().unwrap());
        self.tr.line(&format!("\"ev\":\"op\",{},{},{}", desc, f, ch));
        id
    }

    /// take < 0: consume the iterator completely; otherwise stop after `take` items and drop it
    pub fn query(&mut self, a: i64, b: i64, time: i32, take: i64, arm: u64, log_chunks: bool) -> bool {
        self.now = time;
        let whole = (a == self.lo && b == self.hi && take < 0) as u8;
        let desc = format!("\"op\":\"query\",\"a\":{},\"b\":{},\"t\":{},\"take\":{},\"whole\":{},\"raw\":\"{}:{}\"", self.off(a), self.off(b), time, take, whole, a, b);
        self.count_pair(&format!("query {} {} {} {} {}", self.off(a), self.off(b), time, take, arm));
        self.tr.pre(&format!("{},\"out\":\"aborted\"", desc));
        let cap_items = self.next_id as i64 + 8;
        let t = self.t.as_mut().unwrap();
        let mut got: Vec<i64> = vec![];
        // a completely consumed iterator is drained in one of three ways, in turn: by `next()` alone, by
        // one `next()` followed by `for_each` (which goes through `Iterator::fold`), by `for_each` alone
        self.qcount += 1;
        let style = if take < 0 && arm == 0 { self.qcount % 3 } else { 0 };
        let o = observe(arm, || {
            let mut it = t.iter_by_range(SegRange { min: R::from_i64(a), max: R::from_i64(b) }, time);
            let mut n = 0i64;
            if style >= 1 {
                if style == 1 {
                    if let Some(v) = it.next() {
                        got.push(v.id as i64);
                    }
                }
                it.for_each(|v| got.push(v.id as i64));
                return;
            }
            for v in it {
                if take >= 0 && n >= take {
                    break;
                }
                got.push(v.id as i64);
                n += 1;
                // an iterator that yields more items than values were ever inserted does not end by itself
                if n > cap_items {
                    break;
                }
            }
        });
        let unwound = matches!(o.out, Outcome::Unwound(_));
        let f = out_fields(&o);
        let ch = if log_chunks || whole == 1 || unwound { format!(",{}", chunks_json(self.t.as_ref().unwrap())) } else { String::new() };
        self.tr.line(&format!("\"ev\":\"op\",{},\"res\":{},{},\"ncb\":{}{}", desc, list_json(&got), f, o.ncb, ch));
        unwound
    }

    /// C15: which of the 528 query ranges over [lo, lo+31] yield value `id` (stored with range [a,b])
    pub fn matrix_row(&mut self, id: i32, a: i64, b: i64) {
        let lo = self.lo;
        let t = self.t.as_mut().unwrap();
        let desc = format!("\"op\":\"matrix\",\"id\":{},\"a\":{},\"b\":{}", id, a - lo, b - lo);
        self.tr.pre(&format!("{},\"out\":\"aborted\"", desc));
        let mut row: Vec<i64> = vec![];
        let mut dup = 0;
        let o = observe(0, || {
            for c in 0..32i64 {
                for d in c..32i64 {
                    let n = t.iter_by_range(SegRange { min: R::from_i64(lo + c), max: R::from_i64(lo + d) }, 0).filter(|v| v.id == id).count();
                    if n >= 1 {
                        row.push(c * 32 + d);
                    }
                    if n > 1 {
                        dup += 1;
                    }
                }
            }
        });
        let f = out_fields(&o);
        self.tr.line(&format!("\"ev\":\"op\",{},\"row\":{},\"dup\":{},{}", desc, list_json(&row), dup, f));
    }

    /// a query whose yield is too long to be logged item by item: the number of items, the number of
    /// distinct ids among them and the first 40 ids are logged (a summary of what was observed - what
    /// was to be expected is TLC's business)
    pub fn query_summary(&mut self, a: i64, b: i64, time: i32, take: i64) {
        self.now = time;
        let desc = format!("\"op\":\"queryn\",\"a\":{},\"b\":{},\"t\":{},\"take\":{},\"raw\":\"{}:{}\"", self.off(a), self.off(b), time, take, a, b);
        self.tr.pre(&format!("{},\"out\":\"aborted\"", desc));
        let cap_items = self.next_id as i64 + 8;
        let t = self.t.as_mut().unwrap();
        let mut n = 0i64;
        let mut seen = std::collections::HashSet::new();
        let mut first: Vec<i64> = vec![];
        let o = observe(0, || {
            for v in t.iter_by_range(SegRange { min: R::from_i64(a), max: R::from_i64(b) }, time) {
                if take >= 0 && n >= take {
                    break;
                }
                n += 1;
                seen.insert(v.id);
                if first.len() < 40 {
                    first.push(v.id as i64);
                }
                if n > cap_items {
                    break;
                }
            }
        });
        let f = out_fields(&o);
        self.tr.line(&format!("\"ev\":\"op\",{},\"n\":{},\"nd\":{},\"res\":{},{}", desc, n, seen.len(), list_json(&first), f));
    }

    /// n complete queries over [a, b] at the times t0, t0 + 1, .., t0 + n - 1, observed as one call; logged:
    /// how many of them yielded anything
    pub fn ticks(&mut self, a: i64, b: i64, t0: i32, n: i32) {
        let desc = format!("\"op\":\"ticks\",\"a\":{},\"b\":{},\"t\":{},\"n\":{},\"raw\":\"{}:{}\"", self.off(a), self.off(b), t0, n, a, b);
        self.tr.pre(&format!("{},\"out\":\"aborted\"", desc));
        let t = self.t.as_mut().unwrap();
        let mut nonempty = 0i64;
        let o = observe(0, || {
            for i in 0..n {
                if t.iter_by_range(SegRange { min: R::from_i64(a), max: R::from_i64(b) }, t0 + i).count() > 0 {
                    nonempty += 1;
                }
            }
        });
        self.now = t0 + n - 1;
        let f = out_fields(&o);
        self.tr.line(&format!("\"ev\":\"op\",{},\"nonempty\":{},{}", desc, nonempty, f));
    }

    /// n values with the same range and expiration, inserted by one observed call (no chunk dump)
    pub fn bulk(&mut self, a: i64, b: i64, e: i32, n: i32) {
        let id0 = self.next_id;
        self.next_id += n;
        let desc = format!("\"op\":\"bulk\",\"id\":{},\"n\":{},\"a\":{},\"b\":{},\"e\":{},\"raw\":\"{}:{}\"", id0, n, self.off(a), self.off(b), e, a, b);
        self.tr.pre(&format!("{},\"out\":\"aborted\"", desc));
        let t = self.t.as_mut().unwrap();
        let o = observe(0, || {
            for i in 0..n {
                t.insert_by_range(SegRange { min: R::from_i64(a), max: R::from_i64(b) }, SV { id: id0 + i, e });
            }
        });
        let f = out_fields(&o);
        self.tr.line(&format!("\"ev\":\"op\",{},{}", desc, f));
    }

    pub fn clear(&mut self) {
        let desc = "\"op\":\"clear\"".to_string();
        self.tr.pre(&format!("{},\"out\":\"aborted\"", desc));
        let t = self.t.as_mut().unwrap();
        let o = observe(0, || t.clear());
        self.now = 0;
        let f = out_fields(&o);
        let ch = chunks_json(self.t.as_ref().unwrap());
        self.tr.line(&format!("\"ev\":\"op\",{},{},{}", desc, f, ch));
    }
}

/// a coordinate that is interesting for the layout: domain ends and bucket edges (+-1)
fn pick<R: Coord>(s: &SegSession<R>, rng: &mut Rng) -> i64
where
    i64: From<R>,
{
    let len = ((s.hi as i128) - (s.lo as i128) + 1) as u128;
    let p = 128 - (len - 1).max(1).leading_zeros(); // bits of len-1
    let scale = p.saturating_sub(5);
    let w: i128 = 1i128 << scale;
    let x: i128 = match rng.range(0, 9) {
        0 => s.lo as i128,
        1 => s.hi as i128,
        2..=5 => {
            let b = rng.range(0, 32) as i128;
            (s.lo as i128) + b * w + rng.range(-1, 1) as i128
        }
        _ => (s.lo as i128) + (rng.next() as u128 % len) as i128,
    };
    x.clamp(s.lo as i128, s.hi as i128) as i64
}

pub fn run_random<R: Coord>(tr: &mut Trace, lo: i64, hi: i64, seed: u64, steps: u64, seg_len: u64, inject: bool)
where
    i64: From<R>,
{
    let mut rng = Rng::new(seed);
    let mut done = 0u64;
    while done < steps && !tr.full() {
        let mut s: SegSession<R> = SegSession::open(&mut *tr, lo, hi);
        if s.t.is_none() {
            return;
        }
        // query times start anywhere (negative sweep coordinates included)
        let base = [0i32, 0, -500, 100_000, -2_000_000_000][(rng.next() % 5) as usize];
        let mut clock = base;
        for _ in 0..seg_len {
            done += 1;
            if rng.chance(1, 4) {
                clock += rng.range(0, 2) as i32;
            }
            match rng.range(0, 11) {
                0..=4 => {
                    let (mut a, mut b) = (pick(&s, &mut rng), pick(&s, &mut rng));
                    if rng.chance(1, 5) {
                        b = a;
                    }
                    if rng.chance(1, 10) {
                        // a value over the whole domain (stored at the root place only)
                        a = lo;
                        b = hi;
                    }
                    if a > b {
                        std::mem::swap(&mut a, &mut b);
                    }
                    let e = clock + rng.range(-1, 4) as i32;
                    s.insert(a, b, e);
                }
                5..=8 => {
                    let (mut a, mut b) = (pick(&s, &mut rng), pick(&s, &mut rng));
                    if rng.chance(1, 5) {
                        b = a;
                    }
                    if a > b {
                        std::mem::swap(&mut a, &mut b);
                    }
                    let take = if rng.chance(1, 4) { rng.range(0, 3) } else { -1 };
                    let arm = if inject && rng.chance(1, 3) { rng.range(1, 8) as u64 } else { 0 };
                    let unwound = s.query(a, b, clock, take, arm, rng.chance(1, 8));
                    if unwound {
                        // the tree must still answer: a complete whole-domain query at the same time
                        s.query(lo, hi, clock, -1, 0, true);
                    }
                }
                9 => {
                    s.query(lo, hi, clock, -1, 0, true);
                }
                _ => {
                    if rng.chance(1, 4) {
                        s.clear();
                        clock = base;
                    } else {
                        s.query(lo, hi, clock, -1, 0, true);
                    }
                }
            }
        }
    }
}

/// Long bucket lists and time coincidences, driven deterministically (the random histories spread a
/// few dozen values over up to eight places each, so a list rarely holds more than a handful):
///  1  one leaf list grown to 70 copies; at the lengths around 16, 32 and 64 (where its Vec is exactly
///     full) a value that expires exactly at the query time is inserted, queried, followed by one more
///     insertion into the same list and the same query again
///  2  a root list of more than 16 whole-domain values, an expired single-bucket value in a list that
///     is scanned after it, and a complete whole-domain query (the expired copy must be gone)
///  3  (inject) a list of a dozen copies with expired ones followed by live ones: every callback index
///     of a query over it panics in turn, each followed by a complete whole-domain query
///  4  (bulk > 0) that many values in one list by one bulk call, queried completely
pub fn run_dense<R: Coord>(tr: &mut Trace, lo: i64, hi: i64, seed: u64, inject: bool, bulk: i32)
where
    i64: From<R>,
{
    let mut rng = Rng::new(seed);
    let len = ((hi as i128) - (lo as i128) + 1) as u128;
    let p = 128 - (len - 1).max(1).leading_zeros();
    let w: i128 = 1i128 << p.saturating_sub(5);
    let nb = ((len as i128 + w - 1) / w) as i64; // buckets in use
    let bucket = |b: i64| -> (i64, i64) {
        let a = (lo as i128 + (b as i128) * w).min(hi as i128) as i64;
        let z = (lo as i128 + (b as i128 + 1) * w - 1).min(hi as i128) as i64;
        (a, z)
    };
    // 1
    {
        let mut s: SegSession<R> = SegSession::open(&mut *tr, lo, hi);
        if s.t.is_none() {
            return;
        }
        let b1 = rng.range(0, nb - 1);
        let (a, z) = bucket(b1);
        let mut clock = [0i32, -500, 100_000][(seed % 3) as usize];
        for n in 1..=70 {
            if [15, 16, 31, 32, 63, 64].contains(&n) {
                s.query(a, z, clock, -1, 0, false);
                s.insert(a, z, clock); // expires exactly at the time of the last (and next) query
                s.query(a, z, clock, -1, 0, false);
                s.insert(a, z, clock + 50);
                s.query(a, z, clock, -1, 0, true);
                clock += 1;
            } else {
                let e = if n % 7 == 3 { clock + 1 } else { clock + 50 };
                s.insert(a, z, e);
            }
        }
        s.query(lo, hi, clock + 2, -1, 0, true);
        s.query(a, z, clock + 2, -1, 0, true);
        s.clear();
        s.query(lo, hi, 0, -1, 0, true);
    }
    // 2
    {
        let mut s: SegSession<R> = SegSession::open(&mut *tr, lo, hi);
        let clock = 10;
        for n in 17..=19 {
            s.clear();
            for _ in 0..n {
                s.insert(lo, hi, clock + 100);
            }
            for b in [0, nb / 2, nb - 1] {
                let (a, z) = bucket(b);
                s.insert(a, z, clock); // live at `clock`, expired from `clock + 1` on
                s.insert(a, z, clock + 100);
            }
            s.query(lo, hi, clock, -1, 0, true);
            s.query(lo, hi, clock + 1, -1, 0, true);
        }
    }
    // 3
    if inject {
        let mut s: SegSession<R> = SegSession::open(&mut *tr, lo, hi);
        let (a, z) = bucket(rng.range(0, nb - 1));
        let clock = 5;
        let exps = [9, 9, 4, 9, 3, 9, 9, 4, 9, 9, 9, 2, 9];
        let mut j = 1u64;
        loop {
            s.clear();
            for e in exps {
                s.insert(a, z, e);
            }
            let unwound = s.query(a, z, clock, -1, j, true);
            s.query(lo, hi, clock, -1, 0, true);
            s.query(a, z, clock, -1, 0, true);
            if !unwound || j > 60 {
                break;
            }
            j += 1;
        }
    }
    // 5: a long clock - exactly 2^8 and exactly 2^16 changes of the query time between two queries of one
    // point whose value expires in between (a wrapping "already purged at this time" stamp comes round again)
    if bulk > 5000 {
        let mut s: SegSession<R> = SegSession::open(&mut *tr, lo, hi);
        let (a, z) = bucket(3 % nb);
        let (a2, z2) = bucket((nb - 1).max(4) % nb);
        s.insert(a, z, 200_000);
        s.insert(a, a, 5);
        s.query(a, a, 1, -1, 0, true);
        s.ticks(a2, z2, 2, 255);
        s.query(a, a, 257, -1, 0, true);
        s.insert(a, a, 300);
        s.query(a, a, 258, -1, 0, true);
        s.ticks(a2, z2, 259, 65_535);
        s.query(a, a, 65_794, -1, 0, true);
        s.query(lo, hi, 65_795, -1, 0, true);
    }
    // 6: consecutive insertions with the same first bucket and the same span whose last buckets differ
    if w > 1 {
        let mut s: SegSession<R> = SegSession::open(&mut *tr, lo, hi);
        for sb in [0, 5 % nb, (nb - 3).max(0)] {
            for k in 1..=3i64 {
                if sb + k >= nb {
                    continue;
                }
                let (a, _) = bucket(sb);
                let (_, z) = bucket(sb + k - 1);
                for d in 0..3i64 {
                    if z + d <= hi {
                        s.insert(a + d, z + d, 50);
                    }
                }
                let (na, nz) = bucket(sb + k);
                s.query(na, nz, 1, -1, 0, true);
                s.query(a, a, 1, -1, 0, false);
            }
        }
        s.query(lo, hi, 2, -1, 0, true);
    }
    // 7: clear and clock restart after lists were drained by expiry (not by the clear)
    {
        let mut s: SegSession<R> = SegSession::open(&mut *tr, lo, hi);
        for b in [0, nb / 2, nb - 1] {
            let (a, z) = bucket(b);
            s.insert(a, z, 50);
            s.insert(a, a, 60);
        }
        s.insert(lo, hi, 55);
        s.query(lo, hi, 100, -1, 0, true); // everything has expired: every scanned list is drained
        s.clear();
        for b in [0, nb / 2, nb - 1] {
            let (a, z) = bucket(b);
            s.insert(a, z, 10);
            s.insert(a, a, 30);
        }
        s.insert(lo, hi, 10);
        for t in [5, 20, 40] {
            for b in [0, nb / 2, nb - 1] {
                let (a, z) = bucket(b);
                s.query(a, z, t, -1, 0, false);
            }
            s.query(lo, hi, t, -1, 0, true);
        }
    }
    // 8: values stored in several lists whose neighbours in one of the lists expire earlier: a query over all
    // of the value's lists between the two expirations, then queries over single lists after the later one
    if nb >= 8 {
        let mut s: SegSession<R> = SegSession::open(&mut *tr, lo, hi);
        for (va, vb) in [(1, 3), (2, 6), (0, nb - 1), (5, 7), (nb - 4, nb - 2)] {
            s.clear();
            let (a, _) = bucket(va);
            let (_, z) = bucket(vb);
            s.insert(a, z, 5); // V: several lists
            for wb in [va, (va + vb) / 2, vb] {
                let (wa, wz) = bucket(wb);
                s.insert(wa, wz, 3); // W: one list of V's range, expires earlier
                s.insert(wa, wa, 9);
            }
            s.query(a, z, 2, -1, 0, false);
            s.query(a, z, 4, -1, 0, true); // purges the Ws, keeps V
            for qb in [vb, va, (va + vb) / 2] {
                let (qa, qz) = bucket(qb);
                s.query(qa, qz, 6, -1, 0, true); // V has expired
            }
            s.query(lo, hi, 6, -1, 0, true);
        }
    }
    // 9: a query dropped midway through a list, then a complete query at the very same time
    {
        let mut s: SegSession<R> = SegSession::open(&mut *tr, lo, hi);
        for b in [nb - 1, 0, nb / 2] {
            s.clear();
            let (a, z) = bucket(b);
            for e in [9, 2, 9, 3, 9, 1, 9] {
                s.insert(a, z, e);
            }
            let (oa, oz) = bucket((b + 3) % nb);
            for take in [0, 1, 2] {
                s.query(a, z, 5, take, 0, false);
                s.insert(oa, oz, 9); // an insertion elsewhere, the time stays
                s.query(a, z.min(hi), 5, -1, 0, true);
                s.query(lo, hi, 5, 1, 0, false);
                s.query(lo, hi, 5, -1, 0, true);
            }
        }
    }
    // 4
    if bulk > 0 {
        let mut s: SegSession<R> = SegSession::open(&mut *tr, lo, hi);
        let (a, z) = bucket(rng.range(0, nb - 1));
        s.bulk(a, z, 100, bulk);
        if bulk <= 5000 {
            s.insert(a, z, 100);
            s.query(a, z, 5, -1, 0, false);
            s.query(a, z, 5, 10, 0, false);
            s.query(lo, hi, 6, -1, 0, false);
        } else {
            // a list longer than 65 535 copies: the yield is logged in summary
            s.query_summary(a, z, 5, -1);
            s.query_summary(a, z, 5, 10);
            s.query_summary(lo, hi, 6, -1);
        }
    }
}

/// C15 on the real tree: domain [0,31] (bucket = coordinate).  For every one of the 528 ranges:
/// one insert into a cleared tree, the places that received a copy (hook), and the row of all
/// 528 query ranges that yield it.
pub fn run_matrix(tr: &mut Trace, from: i64, to: i64) {
    let mut s: SegSession<i32> = SegSession::open(tr, 0, 31);
    let mut idx = 0i64;
    for a in 0..32i64 {
        for b in a..32i64 {
            idx += 1;
            if idx <= from || idx > to {
                continue;
            }
            s.clear();
            let id = s.insert(a, b, 5);
            s.matrix_row(id, a, b);
        }
    }
}

/// C14: constructs trees over a grid of domains; for interesting coordinates x a single-point
/// insert shows the place that receives it (hook) and single-point queries show who sees it.
pub fn run_layout<R: Coord>(tr: &mut Trace, domains: &[(i64, i64)])
where
    i64: From<R>,
{
    for &(lo, hi) in domains {
        if tr.full() {
            break;
        }
        let mut s: SegSession<R> = SegSession::open(&mut *tr, lo, hi);
        if s.t.is_none() {
            continue;
        }
        let len = ((hi as i128) - (lo as i128) + 1) as u128;
        let p = 128 - (len - 1).max(1).leading_zeros();
        let scale = p.saturating_sub(5);
        let w: i128 = 1i128 << scale;
        // candidate coordinates: ends and bucket edges +-1
        let mut xs: Vec<i64> = vec![lo, hi];
        for b in 0..=32i128 {
            for d in [-1i128, 0, 1] {
                let x = (lo as i128) + b * w + d;
                if x >= lo as i128 && x <= hi as i128 {
                    xs.push(x as i64);
                }
            }
        }
        xs.sort();
        xs.dedup();
        // keep the event count per domain bounded
        let step = (xs.len() / 24).max(1);
        let chosen: Vec<i64> = xs.iter().cloned().step_by(step).chain([hi]).collect();
        for &x in &chosen {
            s.clear();
            let id = s.insert(x, x, 5);
            let offx = s.off(x);
            let jj = s.j;
            let t = s.t.as_mut().unwrap();
            let places: Vec<i64> = t.verif_chunks().iter().enumerate().filter(|(_, c)| c.iter().any(|(v, _)| v.id == id)).map(|(i, _)| i as i64).collect();
            let desc = format!("\"op\":\"point\",\"id\":{},\"x\":{}", id, offx);
            s.tr.pre(&format!("{},\"out\":\"aborted\"", desc));
            let mut probes = String::from("[");
            let o = observe(0, || {
                for (i, &q) in xs.iter().enumerate() {
                    let n = t.iter_by_range(SegRange { min: R::from_i64(q), max: R::from_i64(q) }, 0).filter(|v| v.id == id).count();
                    if i > 0 {
                        probes.push(',');
                    }
                    let _ = write!(probes, "[{},{}]", (((q as i128) - (lo as i128)) >> jj) as i64, n);
                }
            });
            probes.push(']');
            let f = out_fields(&o);
            s.tr.line(&format!("\"ev\":\"op\",{},\"places\":{},\"probes\":{},{}", desc, list_json(&places), probes, f));
        }
    }
}

/// scripted histories (one per line; ops separated by ';'):
///   n lo hi | i a b e | q a b t take | c
pub fn run_script<R: Coord>(tr: &mut Trace, text: &str)
where
    i64: From<R>,
{
    for line in text.lines() {
        let line = line.trim();
        if line.is_empty() || line.starts_with('#') {
            continue;
        }
        let mut sess: Option<SegSession<R>> = None;
        for op in line.split(';').map(|x| x.trim()).filter(|x| !x.is_empty()) {
            let f: Vec<&str> = op.split_whitespace().collect();
            let n = |i: usize| -> i64 { f[i].parse().expect("number in script") };
            match f[0] {
                "n" => {
                    drop(sess.take());
                    sess = Some(SegSession::open(&mut *tr, n(1), n(2)));
                }
                _ => {
                    let s = match sess.as_mut() {
                        Some(s) if s.t.is_some() => s,
                        _ => continue,
                    };
                    match f[0] {
                        "i" => {
                            s.insert(n(1), n(2), n(3) as i32);
                        }
                        "q" => {
                            s.query(n(1), n(2), n(3) as i32, n(4), 0, true);
                        }
                        "c" => s.clear(),
                        other => panic!("unknown script op {other}"),
                    }
                }
            }
        }
    }
}

/// re-execute a recorded trace (a replay file written by the check driver) on the current code
pub fn run_replay<R: Coord>(tr: &mut Trace, text: &str)
where
    i64: From<R>,
{
    fn pair(s: &str) -> Option<(i64, i64)> {
        // "lo:hi" where either part may be negative
        let i = s[1..].find(':')? + 1;
        Some((s[..i].parse().ok()?, s[i + 1..].parse().ok()?))
    }
    let mut sess: Option<SegSession<R>> = None;
    for line in text.lines() {
        let ev = fstr(line, "ev");
        let op = fstr(line, "op");
        if ev.as_deref() == Some("new") || op.as_deref() == Some("new") {
            drop(sess.take());
            if let Some((lo, hi)) = fstr(line, "dom").as_deref().and_then(pair) {
                sess = Some(SegSession::open(&mut *tr, lo, hi));
            }
            continue;
        }
        let s = match sess.as_mut() {
            Some(s) if s.t.is_some() => s,
            _ => continue,
        };
        match op.as_deref() {
            Some("ins") => {
                if let Some((a, b)) = fstr(line, "raw").as_deref().and_then(pair) {
                    s.insert(a, b, fnum(line, "e").unwrap_or(0) as i32);
                }
            }
            Some("query") => {
                if let Some((a, b)) = fstr(line, "raw").as_deref().and_then(pair) {
                    s.query(a, b, fnum(line, "t").unwrap_or(0) as i32, fnum(line, "take").unwrap_or(-1), fnum(line, "inj").unwrap_or(0) as u64, true);
                }
            }
            Some("bulk") => {
                if let Some((a, b)) = fstr(line, "raw").as_deref().and_then(pair) {
                    s.bulk(a, b, fnum(line, "e").unwrap_or(0) as i32, fnum(line, "n").unwrap_or(0) as i32);
                }
            }
            Some("ticks") => {
                if let Some((a, b)) = fstr(line, "raw").as_deref().and_then(pair) {
                    s.ticks(a, b, fnum(line, "t").unwrap_or(0) as i32, fnum(line, "n").unwrap_or(0) as i32);
                }
            }
            Some("queryn") => {
                if let Some((a, b)) = fstr(line, "raw").as_deref().and_then(pair) {
                    s.query_summary(a, b, fnum(line, "t").unwrap_or(0) as i32, fnum(line, "take").unwrap_or(-1));
                }
            }
            Some("clear") => s.clear(),
            Some("matrix") => {
                let (id, a, b) = (fnum(line, "id").unwrap_or(0) as i32, fnum(line, "a").unwrap_or(0), fnum(line, "b").unwrap_or(0));
                let lo = s.lo;
                s.matrix_row(id, lo + a, lo + b);
            }
            _ => {}
        }
    }
}
