//! NDJSON trace writer, call observation (catch_unwind + callback injection), small RNG.
use crate::inst;
use std::collections::HashSet;
use std::collections::hash_map::DefaultHasher;
use std::fmt::Write as FmtWrite;
use std::fs::File;
use std::hash::{Hash, Hasher};
use std::io::{BufWriter, Write};
use std::panic::{catch_unwind, AssertUnwindSafe};

pub struct Rng(u64);
impl Rng {
    pub fn new(seed: u64) -> Self {
        let mut r = Rng(seed.wrapping_mul(0x9E3779B97F4A7C15) ^ 0xD1B54A32D192ED03);
        for _ in 0..4 {
            r.next();
        }
        r
    }
    pub fn next(&mut self) -> u64 {
        // splitmix64
        self.0 = self.0.wrapping_add(0x9E3779B97F4A7C15);
        let mut z = self.0;
        z = (z ^ (z >> 30)).wrapping_mul(0xBF58476D1CE4E5B9);
        z = (z ^ (z >> 27)).wrapping_mul(0x94D049BB133111EB);
        z ^ (z >> 31)
    }
    /// uniform in lo..=hi
    pub fn range(&mut self, lo: i64, hi: i64) -> i64 {
        debug_assert!(lo <= hi);
        let span = (hi - lo) as u64 + 1;
        lo + (self.next() % span) as i64
    }
    pub fn chance(&mut self, num: u64, den: u64) -> bool {
        self.next() % den < num
    }
    pub fn shuffle<T>(&mut self, v: &mut [T]) {
        for i in (1..v.len()).rev() {
            let j = (self.next() % (i as u64 + 1)) as usize;
            v.swap(i, j);
        }
    }
}

pub enum Outcome<R> {
    Ok(R),
    /// the harness's own injected panic left the call at callback `j`
    Unwound(u64),
    /// a panic that was not injected: an internal assertion, overflow, bounds check ...
    Panic(String),
}

pub struct Observed<R> {
    pub out: Outcome<R>,
    pub ncb: u64,
    pub cmp: Vec<[i32; 6]>,
}

pub fn observe<R>(arm: u64, f: impl FnOnce() -> R) -> Observed<R> {
    inst::begin(arm);
    let r = catch_unwind(AssertUnwindSafe(f));
    let (ncb, cmp) = inst::end();
    let out = match r {
        Ok(v) => Outcome::Ok(v),
        Err(p) => {
            if p.is::<inst::Injected>() {
                Outcome::Unwound(arm)
            } else if let Some(s) = p.downcast_ref::<String>() {
                Outcome::Panic(s.clone())
            } else if let Some(s) = p.downcast_ref::<&str>() {
                Outcome::Panic(s.to_string())
            } else {
                Outcome::Panic("non-string panic payload".to_string())
            }
        }
    };
    Observed { out, ncb, cmp }
}

pub fn esc(s: &str) -> String {
    let mut o = String::new();
    for c in s.chars() {
        match c {
            '"' => o.push_str("\\\""),
            '\\' => o.push_str("\\\\"),
            '\n' => o.push(' '),
            c if (c as u32) < 0x20 => o.push(' '),
            c => o.push(c),
        }
    }
    o
}

pub fn cmp_json(cmp: &[[i32; 6]]) -> String {
    let mut s = String::from("[");
    for (i, c) in cmp.iter().enumerate() {
        if i > 0 {
            s.push(',');
        }
        let _ = write!(s, "[{},{},{},{},{},{}]", c[0], c[1], c[2], c[3], c[4], c[5]);
    }
    s.push(']');
    s
}

pub fn list_json(v: &[i64]) -> String {
    let mut s = String::from("[");
    for (i, c) in v.iter().enumerate() {
        if i > 0 {
            s.push(',');
        }
        let _ = write!(s, "{}", c);
    }
    s.push(']');
    s
}

pub fn r32(x: u32) -> i64 {
    if x == i_tree::EMPTY_REF {
        -1
    } else {
        x as i64
    }
}

pub struct Trace {
    w: BufWriter<File>,
    journal: bool,
    pub events: u64,
    pub max_events: u64,
    pairs: HashSet<u64>,
    pub samples: Vec<String>,
    pub stats_path: String,
}

impl Trace {
    /// A constructor of the code under test panicked: nothing more can be driven.  The event has
    /// been logged; finish the trace in an orderly way so that TLC gets to judge it.
    pub fn end_after_fatal(&mut self) -> ! {
        self.w.flush().unwrap();
        let mut f = File::create(&self.stats_path).expect("create stats file");
        writeln!(f, "{{\"events\":{},\"pairs\":{},\"samples\":[]}}", self.events, self.pairs.len()).unwrap();
        std::process::exit(0);
    }

    pub fn new(path: &str, journal: bool, max_events: u64) -> Self {
        Trace {
            stats_path: String::new(),
            w: BufWriter::with_capacity(1 << 20, File::create(path).expect("create trace file")),
            journal,
            events: 0,
            max_events,
            pairs: HashSet::new(),
            samples: Vec::new(),
        }
    }
    pub fn full(&self) -> bool {
        self.events >= self.max_events
    }
    /// a complete event line (without braces)
    pub fn line(&mut self, body: &str) {
        self.w.write_all(b"{").unwrap();
        self.w.write_all(body.as_bytes()).unwrap();
        self.w.write_all(b"}\n").unwrap();
        self.events += 1;
        if self.journal {
            self.w.flush().unwrap();
        }
    }
    /// journal mode: the pessimistic record written (and flushed) before the call is made;
    /// the driver keeps it only if the process dies inside the call
    pub fn pre(&mut self, desc: &str) {
        if self.journal {
            self.w.write_all(b"{\"ev\":\"call\",").unwrap();
            self.w.write_all(desc.as_bytes()).unwrap();
            self.w.write_all(b"}\n").unwrap();
            self.w.flush().unwrap();
        }
    }
    /// count a distinct (canonical pre-state, call) pair
    pub fn pair(&mut self, state: &str, call: &str) {
        let mut h = DefaultHasher::new();
        state.hash(&mut h);
        call.hash(&mut h);
        self.pairs.insert(h.finish());
    }
    pub fn sample(&mut self, s: String) {
        if self.samples.len() < 6 {
            self.samples.push(s);
        }
    }
    pub fn finish(mut self, stats_path: &str) {
        self.w.flush().unwrap();
        let mut f = File::create(stats_path).expect("create stats file");
        let samples: Vec<String> = self.samples.iter().map(|s| format!("\"{}\"", esc(s))).collect();
        writeln!(
            f,
            "{{\"events\":{},\"pairs\":{},\"samples\":[{}]}}",
            self.events,
            self.pairs.len(),
            samples.join(",")
        )
        .unwrap();
    }
}

/// fields describing how a call ended, shared by all collections
pub fn out_fields<R>(o: &Observed<R>) -> String {
    match &o.out {
        Outcome::Ok(_) => "\"out\":\"ok\"".to_string(),
        Outcome::Unwound(j) => format!("\"out\":\"unwound\",\"inj\":{}", j),
        Outcome::Panic(m) => format!("\"out\":\"panic\",\"msg\":\"{}\"", esc(m)),
    }
}

/// minimal field extraction from the flat event lines this harness writes itself (replay)
pub fn fnum(line: &str, key: &str) -> Option<i64> {
    let pat = format!("\"{}\":", key);
    let i = line.find(&pat)? + pat.len();
    let rest = &line[i..];
    let end = rest.find(|c: char| !(c == '-' || c.is_ascii_digit())).unwrap_or(rest.len());
    rest[..end].parse().ok()
}
pub fn fstr(line: &str, key: &str) -> Option<String> {
    let pat = format!("\"{}\":\"", key);
    let i = line.find(&pat)? + pat.len();
    let rest = &line[i..];
    let end = rest.find('"')?;
    Some(rest[..end].to_string())
}

/// an arena state in the syntax of the `snap` field (written by this harness, and by TLC for the
/// start states of the one-step models)
#[derive(Clone, Debug)]
pub struct Snap {
    pub root: i64,
    /// [parent, left, right, red, key, value, expiration] per slot
    pub nd: Vec<[i64; 7]>,
    pub free: Vec<u32>,
    pub ucap: usize,
}

fn ints_until(s: &str, close: char) -> (Vec<i64>, usize) {
    let mut v = vec![];
    let mut cur = String::new();
    for (i, c) in s.char_indices() {
        if c == '-' || c.is_ascii_digit() {
            cur.push(c);
        } else {
            if !cur.is_empty() {
                v.push(cur.parse().expect("integer in snapshot"));
                cur.clear();
            }
            if c == close {
                return (v, i);
            }
        }
    }
    (v, s.len())
}

pub fn parse_snap(line: &str) -> Option<Snap> {
    let i = line.find("\"snap\":{")?;
    let s = &line[i..];
    let root = fnum(s, "root")?;
    let a = s.find("\"nd\":[")? + 6;
    let mut nd = vec![];
    let mut rest = &s[a..];
    loop {
        let t = rest.trim_start_matches(',');
        if !t.starts_with('[') {
            break;
        }
        let (v, end) = ints_until(&t[1..], ']');
        if v.len() != 7 {
            return None;
        }
        nd.push([v[0], v[1], v[2], v[3], v[4], v[5], v[6]]);
        rest = &t[1 + end + 1..];
    }
    let f = s.find("\"free\":[")? + 8;
    let (fv, _) = ints_until(&s[f..], ']');
    let ucap = fnum(s, "ucap")? as usize;
    Some(Snap { root, nd, free: fv.into_iter().map(|x| x as u32).collect(), ucap })
}

pub fn u32r(x: i64) -> u32 {
    if x < 0 {
        i_tree::EMPTY_REF
    } else {
        x as u32
    }
}
