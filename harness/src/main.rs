//! itv - trace-producing harness for the TLA+ based verification of iTree.
//! usage: itv <collection> <driver> --out FILE --stats FILE [--journal] [--seed N] [--max-events N] [k=v ...]
mod inst;
mod key;
mod ord;
mod out;
mod seg;

use i_tree::key::list::KeyExpList;
use i_tree::key::tree::KeyExpTree;
use inst::{Cnt, OKey, XKey, PV};
use i_tree::map::list::MapList;
use i_tree::map::tree::MapTree;
use i_tree::set::list::SetList;
use i_tree::set::tree::SetTree;
use std::collections::HashMap;

pub struct Args {
    pub coll: String,
    pub driver: String,
    pub out: String,
    pub stats: String,
    pub journal: bool,
    pub kv: HashMap<String, String>,
}
impl Args {
    pub fn num(&self, k: &str, d: i64) -> i64 {
        self.kv.get(k).map(|v| v.parse().unwrap_or_else(|_| panic!("bad number for {k}"))).unwrap_or(d)
    }
    pub fn str(&self, k: &str, d: &str) -> String {
        self.kv.get(k).cloned().unwrap_or_else(|| d.to_string())
    }
}

fn parse_args() -> Args {
    let a: Vec<String> = std::env::args().collect();
    if a.len() < 3 {
        eprintln!("usage: itv <collection> <driver> --out F --stats F [--journal] [k=v ...]");
        std::process::exit(2);
    }
    let mut args = Args { coll: a[1].clone(), driver: a[2].clone(), out: String::new(), stats: String::new(), journal: false, kv: HashMap::new() };
    let mut i = 3;
    while i < a.len() {
        match a[i].as_str() {
            "--out" => {
                args.out = a[i + 1].clone();
                i += 1;
            }
            "--stats" => {
                args.stats = a[i + 1].clone();
                i += 1;
            }
            "--journal" => args.journal = true,
            s => {
                if let Some((k, v)) = s.split_once('=') {
                    args.kv.insert(k.to_string(), v.to_string());
                } else {
                    eprintln!("unknown argument {s}");
                    std::process::exit(2);
                }
            }
        }
        i += 1;
    }
    if args.out.is_empty() || args.stats.is_empty() {
        eprintln!("--out and --stats are required");
        std::process::exit(2);
    }
    args
}

fn key_main<C: key::KeyColl>(a: &Args, tr: &mut out::Trace) {
    match a.driver.as_str() {
        "random" => {
            let cfg = key::RandCfg {
                seed: a.num("seed", 1) as u64,
                keys: a.num("keys", 6) as i32,
                tspan: a.num("tspan", 4) as i32,
                steps: a.num("steps", 2000) as u64,
                seg_len: a.num("seglen", 60) as u64,
                inject: a.num("inject", 0) != 0,
                snap_every: a.num("snapevery", 1) as u64,
                clears: a.num("clears", 1) != 0,
                clear_den: a.num("clearden", 6) as u64,
                cap: a.num("cap", -1),
            };
            key::run_random::<C>(tr, &cfg);
        }
        "replay" => {
            let text = std::fs::read_to_string(a.str("file", "")).expect("replay file");
            key::run_replay::<C>(tr, &text, a.num("keys", 8) as i32);
        }
        "ind" => {
            let text = std::fs::read_to_string(a.str("states", "")).expect("states file");
            let states: Vec<out::Snap> = text.lines().filter(|l| !l.trim().is_empty()).map(|l| out::parse_snap(l).expect("start state")).collect();
            if a.num("faults", 0) != 0 {
                key::run_ind_faults::<C>(tr, &states);
            } else if a.num("queries", 0) != 0 {
                key::run_ind_queries::<C>(tr, &states);
            } else {
                key::run_ind::<C>(tr, &states, a.num("export", 1) != 0);
            }
        }
        "scale" => key::run_scale::<C>(tr, a.num("seed", 1) as u64, &a.str("rounds", "ABC"), a.num("deep", 0) as i32),
        "sizes" => key::run_sizes::<C>(tr, a.num("max", 100000) as u64, a.num("seed", 1) as u64),
        "paths" | "faults" => {
            let text = std::fs::read_to_string(a.str("paths", "")).expect("paths file");
            let paths = key::parse_paths(&text);
            let keys = a.num("keys", 3) as i32;
            let tmax = a.num("tmax", 3) as i32;
            if a.driver == "paths" {
                key::run_paths::<C>(tr, &paths, keys, tmax, a.num("fanout", 1) != 0, a.num("export", 1) != 0);
            } else {
                key::run_faults::<C>(tr, &paths, keys, tmax);
            }
        }
        d => {
            eprintln!("unknown driver {d}");
            std::process::exit(2);
        }
    }
}

fn ord_main<C: ord::OrdColl>(a: &Args, tr: &mut out::Trace) {
    match a.driver.as_str() {
        "random" => {
            let cfg = ord::RandCfg {
                seed: a.num("seed", 1) as u64,
                keys: a.num("keys", 8) as i32,
                steps: a.num("steps", 2000) as u64,
                seg_len: a.num("seglen", 80) as u64,
                inject: a.num("inject", 0) != 0,
                snap_every: a.num("snapevery", 1) as u64,
                clears: a.num("clears", 1) != 0,
                clear_den: a.num("clearden", 5) as u64,
                cap: a.num("cap", -1),
                walk_den: a.num("walkden", 60) as u64,
            };
            ord::run_random::<C>(tr, &cfg);
        }
        "replay" => {
            let text = std::fs::read_to_string(a.str("file", "")).expect("replay file");
            ord::run_replay::<C>(tr, &text, a.num("keys", 8) as i32);
        }
        "scale" => {
            let plan: Vec<(i32, i32)> = a
                .str("plan", "15:26")
                .split(',')
                .filter(|x| !x.is_empty())
                .map(|x| {
                    let (p, q) = x.split_once(':').expect("n1:n2");
                    (p.parse().expect("n1"), q.parse().expect("n2"))
                })
                .collect();
            ord::run_scale::<C>(tr, &plan, a.num("seed", 1) as u64, a.num("full", 1) != 0, a.num("cap", -1), a.num("snapevery", 16) as u64, a.num("deep", 0) as i32, a.num("faults", 0) != 0, (a.num("sweep_lo", 1) as i32, a.num("sweep_hi", 0) as i32));
        }
        "ind" => {
            let text = std::fs::read_to_string(a.str("states", "")).expect("states file");
            let states: Vec<out::Snap> = text.lines().filter(|l| !l.trim().is_empty()).map(|l| out::parse_snap(l).expect("start state")).collect();
            if a.num("faults", 0) != 0 {
                ord::run_ind_faults::<C>(tr, &states);
            } else {
                ord::run_ind::<C>(tr, &states, a.num("handles", 0) != 0);
            }
        }
        "paths" | "faults" => {
            let text = std::fs::read_to_string(a.str("paths", "")).expect("paths file");
            let paths = ord::parse_paths(&text);
            let keys = a.num("keys", 4) as i32;
            if a.driver == "paths" && a.num("triples", 0) != 0 {
                ord::run_triples::<C>(tr, &paths, keys);
            } else if a.driver == "paths" {
                ord::run_paths::<C>(tr, &paths, keys, a.num("fanout", 1) != 0);
            } else {
                ord::run_faults::<C>(tr, &paths, keys);
            }
        }
        d => {
            eprintln!("unknown driver {d}");
            std::process::exit(2);
        }
    }
}

fn seg_main<R: seg::Coord>(a: &Args, tr: &mut out::Trace)
where
    i64: From<R>,
{
    match a.driver.as_str() {
        "random" | "faults" => seg::run_random::<R>(
            tr,
            a.num("lo", 0),
            a.num("hi", 31),
            a.num("seed", 1) as u64,
            a.num("steps", 2000) as u64,
            a.num("seglen", 60) as u64,
            a.driver == "faults" || a.num("inject", 0) != 0,
        ),
        "dense" => seg::run_dense::<R>(tr, a.num("lo", 0), a.num("hi", 31), a.num("seed", 1) as u64, a.num("inject", 0) != 0, a.num("bulk", 0) as i32),
        "script" => {
            let text = std::fs::read_to_string(a.str("file", "")).expect("script file");
            seg::run_script::<R>(tr, &text);
        }
        "replay" => {
            let text = std::fs::read_to_string(a.str("file", "")).expect("replay file");
            seg::run_replay::<R>(tr, &text);
        }
        "layout" => {
            let doms: Vec<(i64, i64)> = a
                .str("domains", "")
                .split(',')
                .filter(|s| !s.is_empty())
                .map(|s| {
                    let (l, h) = s.split_once(':').expect("lo:hi");
                    (l.parse().expect("lo"), h.parse().expect("hi"))
                })
                .collect();
            seg::run_layout::<R>(tr, &doms);
        }
        d => {
            eprintln!("unknown driver {d}");
            std::process::exit(2);
        }
    }
}

fn main() {
    let a = parse_args();
    // injected and internal panics are data, not noise on stderr; the last message is kept so that a
    // panic nobody catches (a harness bug) can still be reported
    std::panic::set_hook(Box::new(|info| {
        if let Ok(mut m) = LAST_PANIC.lock() {
            *m = format!("{}", info);
        }
    }));
    let mut tr = out::Trace::new(&a.out, a.journal, a.num("max_events", 1_000_000_000) as u64);
    tr.stats_path = a.stats.clone();
    let r = std::panic::catch_unwind(std::panic::AssertUnwindSafe(|| dispatch(&a, &mut tr)));
    if r.is_err() {
        eprintln!("itv: uncaught panic in the harness: {}", LAST_PANIC.lock().map(|m| m.clone()).unwrap_or_default());
        std::process::exit(101);
    }
    tr.finish(&a.stats);
}

static LAST_PANIC: std::sync::Mutex<String> = std::sync::Mutex::new(String::new());

fn dispatch(a: &Args, tr: &mut out::Trace) {
    match a.coll.as_str() {
        "keytree" => key_main::<KeyExpTree<XKey, i32, i32>>(a, tr),
        "keylist" => key_main::<KeyExpList<XKey, i32, i32>>(a, tr),
        "maptree-i32" => ord_main::<MapTree<OKey, i32>>(a, tr),
        "maptree-str" => ord_main::<MapTree<OKey, String>>(a, tr),
        "maplist-i32" => ord_main::<MapList<OKey, i32>>(a, tr),
        "maplist-str" => ord_main::<MapList<OKey, String>>(a, tr),
        "settree-i32" => ord_main::<SetTree<OKey, PV<i32>>>(a, tr),
        "settree-str" => ord_main::<SetTree<OKey, PV<String>>>(a, tr),
        "settree-plain" => ord_main::<SetTree<i32, i32>>(a, tr),
        "maptree-cnt" => ord_main::<MapTree<OKey, Cnt>>(a, tr),
        "settree-cnt" => ord_main::<SetTree<OKey, PV<Cnt>>>(a, tr),
        "maplist-cnt" => ord_main::<MapList<OKey, Cnt>>(a, tr),
        "setlist-cnt" => ord_main::<SetList<PV<Cnt>>>(a, tr),
        "setlist-i32" => ord_main::<SetList<PV<i32>>>(a, tr),
        "setlist-str" => ord_main::<SetList<PV<String>>>(a, tr),
        "seg-i32" if a.driver == "matrix" => seg::run_matrix(tr, a.num("from", 0), a.num("to", 528)),
        "seg-i32" => seg_main::<i32>(a, tr),
        "seg-u32" => seg_main::<u32>(a, tr),
        "seg-i64" => seg_main::<i64>(a, tr),
        c => {
            eprintln!("unknown collection {c}");
            std::process::exit(2);
        }
    }
}
