//! Drivers for the ordered map / ordered set (tree and sorted-list variants).
use crate::inst::{self, OKey, Payload, PV};
use crate::out::*;
use i_tree::map::list::MapList;
use i_tree::map::sort::MapCollection;
use i_tree::map::tree::MapTree;
use i_tree::set::list::SetList;
use i_tree::set::sort::SetCollection;
use i_tree::set::tree::SetTree;
use i_tree::EMPTY_REF;
use std::collections::BTreeSet;
use std::fmt::Write as FmtWrite;

pub const NOVAL: i64 = -999999;
/// arenas above this size are reported by their size only (a snapshot would be hundreds of MB)
pub const MAX_SNAPSHOT_SLOTS: usize = 50_000;

/// one interface over the four (x payload types) collections; keys and payloads as integers
pub trait OrdColl: Sized {
    const KIND: &'static str;
    const HAS_SNAP: bool;
    const IS_SET: bool;
    /// values are bare keys (SetTree<i32, i32> with the library's own KeyValue impl): payload == key
    const PLAIN: bool = false;
    /// the payload type counts its instances (inst::Cnt): dropping the collection must leave none
    const COUNTED: bool = false;
    fn name() -> String;
    fn make(cap: usize) -> Self;
    fn is_empty(&self) -> bool;
    fn insert(&mut self, k: i32, v: i32);
    fn delete(&mut self, k: i32);
    fn delete_by_index(&mut self, h: u32);
    /// (key carried by the returned value, payload)
    fn get(&self, k: i32) -> Option<(i32, i32)>;
    fn read(&self, h: u32) -> (i32, i32);
    fn write(&mut self, h: u32, v: i32);
    fn fil(&self, k: i32) -> u32;
    fn fil_by(&self, th: i32) -> u32;
    fn after(&self, h: u32) -> u32;
    fn before(&self, h: u32) -> u32;
    fn clear(&mut self);
    fn snap_json(&self) -> String;
    fn canon(&self) -> String;
    /// keys reachable from the root according to the snapshot hook (trees; None for lists): after an
    /// unlogged replay the harness learns from the same snapshot TLC gets what the collection holds
    fn stored_keys(&self) -> Option<Vec<i32>> {
        None
    }
    /// (trees) the collection put into a given arena state through the `verif_load` hook
    fn from_snap(_s: &Snap) -> Option<Self> {
        None
    }
    /// (trees) length of the free list according to the snapshot hook - lets a driver steer towards
    /// "the arena is exactly full"
    fn free_slots(&self) -> Option<usize> {
        None
    }
}

fn snap_head(o: &mut String, root: u32) {
    let _ = write!(o, "\"snap\":{{\"root\":{},\"nd\":[", r32(root));
}
fn snap_tail(o: &mut String, unused: &[u32], ucap: usize) {
    o.push_str("],\"free\":[");
    for (i, u) in unused.iter().enumerate() {
        if i > 0 {
            o.push(',');
        }
        let _ = write!(o, "{}", u);
    }
    let _ = write!(o, "],\"ucap\":{}}}", ucap);
}

struct CNode {
    l: u32,
    r: u32,
    red: bool,
    k: i32,
    v: i32,
}
fn keys_of(nodes: &[CNode], root: u32) -> Vec<i32> {
    fn walk(nodes: &[CNode], i: u32, depth: usize, o: &mut Vec<i32>) {
        if i == EMPTY_REF || depth > 80 || (i as usize) >= nodes.len() {
            return;
        }
        let n = &nodes[i as usize];
        walk(nodes, n.l, depth + 1, o);
        o.push(n.k);
        walk(nodes, n.r, depth + 1, o);
    }
    let mut o = vec![];
    walk(nodes, root, 0, &mut o);
    o
}

fn canon_of(nodes: &[CNode], root: u32, nfree: usize) -> String {
    fn walk(nodes: &[CNode], i: u32, depth: usize, o: &mut String) {
        if i == EMPTY_REF || depth > 80 || (i as usize) >= nodes.len() {
            o.push('.');
            return;
        }
        let n = &nodes[i as usize];
        let _ = write!(o, "({}/{}{}", n.k, n.v, if n.red { 'r' } else { 'b' });
        walk(nodes, n.l, depth + 1, o);
        walk(nodes, n.r, depth + 1, o);
        o.push(')');
    }
    let mut o = String::new();
    walk(nodes, root, 0, &mut o);
    let _ = write!(o, "|{}|{}", nodes.len(), nfree);
    o
}

// ---- MapTree ------------------------------------------------------------------------------
impl<P: Payload> OrdColl for MapTree<OKey, P> {
    const COUNTED: bool = P::COUNTED;
    const KIND: &'static str = "MapTree";
    const HAS_SNAP: bool = true;
    const IS_SET: bool = false;
    fn name() -> String {
        format!("MapTree<{}>", P::NAME)
    }
    fn make(cap: usize) -> Self {
        MapTree::new(cap)
    }
    fn is_empty(&self) -> bool {
        MapCollection::is_empty(self)
    }
    fn insert(&mut self, k: i32, v: i32) {
        MapCollection::insert(self, OKey(k), P::from_i(v))
    }
    fn delete(&mut self, k: i32) {
        MapCollection::delete(self, OKey(k))
    }
    fn delete_by_index(&mut self, h: u32) {
        MapCollection::delete_by_index(self, h)
    }
    fn get(&self, k: i32) -> Option<(i32, i32)> {
        MapCollection::get_value(self, OKey(k)).map(|v| (k, v.to_i()))
    }
    fn read(&self, h: u32) -> (i32, i32) {
        (-1, MapCollection::value_by_index(self, h).to_i())
    }
    fn write(&mut self, h: u32, v: i32) {
        *MapCollection::value_by_index_mut(self, h) = P::from_i(v);
    }
    fn fil(&self, k: i32) -> u32 {
        MapCollection::first_index_less(self, OKey(k))
    }
    fn fil_by(&self, th: i32) -> u32 {
        MapCollection::first_index_less_by(self, inst::by_theta_o(th))
    }
    fn after(&self, _h: u32) -> u32 {
        unreachable!("maps have no neighbour steps")
    }
    fn before(&self, _h: u32) -> u32 {
        unreachable!("maps have no neighbour steps")
    }
    fn clear(&mut self) {
        MapCollection::clear(self)
    }
    fn snap_json(&self) -> String {
        let s = self.verif_snapshot();
        if s.nodes.len() > MAX_SNAPSHOT_SLOTS {
            // resource cut-off, not a verdict: the size itself is logged and judged by TLC
            return format!("\"arena\":{{\"slots\":{},\"free\":{}}}", s.nodes.len(), s.unused.len());
        }
        let mut o = String::with_capacity(64 + 40 * s.nodes.len());
        snap_head(&mut o, s.root);
        for (i, n) in s.nodes.iter().enumerate() {
            if i > 0 {
                o.push(',');
            }
            let _ = write!(o, "[{},{},{},{},{},{},0]", r32(n.parent), r32(n.left), r32(n.right), n.red as u8, n.key.0, n.val.to_i());
        }
        snap_tail(&mut o, &s.unused, s.unused_capacity);
        o
    }
    fn canon(&self) -> String {
        let s = self.verif_snapshot();
        let nodes: Vec<CNode> = s.nodes.iter().map(|n| CNode { l: n.left, r: n.right, red: n.red, k: n.key.0, v: n.val.to_i() }).collect();
        canon_of(&nodes, s.root, s.unused.len())
    }
    fn stored_keys(&self) -> Option<Vec<i32>> {
        let s = self.verif_snapshot();
        let nodes: Vec<CNode> = s.nodes.iter().map(|n| CNode { l: n.left, r: n.right, red: n.red, k: n.key.0, v: 0 }).collect();
        Some(keys_of(&nodes, s.root))
    }
    fn free_slots(&self) -> Option<usize> {
        Some(self.verif_snapshot().unused.len())
    }
    fn from_snap(s: &Snap) -> Option<Self> {
        use i_tree::map::verif::{VerifNode, VerifSnapshot};
        let nodes = s
            .nd
            .iter()
            .map(|n| VerifNode { parent: u32r(n[0]), left: u32r(n[1]), right: u32r(n[2]), red: n[3] != 0, key: OKey(n[4] as i32), val: P::from_i(n[5] as i32) })
            .collect();
        Some(MapTree::verif_load(VerifSnapshot { root: u32r(s.root), nodes, unused: s.free.clone(), unused_capacity: s.ucap }))
    }
}

// ---- MapList ------------------------------------------------------------------------------
impl<P: Payload> OrdColl for MapList<OKey, P> {
    const COUNTED: bool = P::COUNTED;
    const KIND: &'static str = "MapList";
    const HAS_SNAP: bool = false;
    const IS_SET: bool = false;
    fn name() -> String {
        format!("MapList<{}>", P::NAME)
    }
    fn make(cap: usize) -> Self {
        MapList::new(cap)
    }
    fn is_empty(&self) -> bool {
        MapCollection::is_empty(self)
    }
    fn insert(&mut self, k: i32, v: i32) {
        MapCollection::insert(self, OKey(k), P::from_i(v))
    }
    fn delete(&mut self, k: i32) {
        MapCollection::delete(self, OKey(k))
    }
    fn delete_by_index(&mut self, h: u32) {
        MapCollection::delete_by_index(self, h)
    }
    fn get(&self, k: i32) -> Option<(i32, i32)> {
        MapCollection::get_value(self, OKey(k)).map(|v| (k, v.to_i()))
    }
    fn read(&self, h: u32) -> (i32, i32) {
        (-1, MapCollection::value_by_index(self, h).to_i())
    }
    fn write(&mut self, h: u32, v: i32) {
        *MapCollection::value_by_index_mut(self, h) = P::from_i(v);
    }
    fn fil(&self, k: i32) -> u32 {
        MapCollection::first_index_less(self, OKey(k))
    }
    fn fil_by(&self, th: i32) -> u32 {
        MapCollection::first_index_less_by(self, inst::by_theta_o(th))
    }
    fn after(&self, _h: u32) -> u32 {
        unreachable!("maps have no neighbour steps")
    }
    fn before(&self, _h: u32) -> u32 {
        unreachable!("maps have no neighbour steps")
    }
    fn clear(&mut self) {
        MapCollection::clear(self)
    }
    fn snap_json(&self) -> String {
        String::new()
    }
    fn canon(&self) -> String {
        String::new()
    }
}

// ---- SetTree ------------------------------------------------------------------------------
impl<P: Payload> OrdColl for SetTree<OKey, PV<P>> {
    const COUNTED: bool = P::COUNTED;
    const KIND: &'static str = "SetTree";
    const HAS_SNAP: bool = true;
    const IS_SET: bool = true;
    fn name() -> String {
        format!("SetTree<{}>", P::NAME)
    }
    fn make(cap: usize) -> Self {
        SetTree::new(cap)
    }
    fn is_empty(&self) -> bool {
        SetCollection::is_empty(self)
    }
    fn insert(&mut self, k: i32, v: i32) {
        SetCollection::insert(self, PV { key: OKey(k), payload: P::from_i(v) })
    }
    fn delete(&mut self, k: i32) {
        SetCollection::delete(self, &OKey(k))
    }
    fn delete_by_index(&mut self, h: u32) {
        SetCollection::delete_by_index(self, h)
    }
    fn get(&self, k: i32) -> Option<(i32, i32)> {
        SetCollection::get_value(self, &OKey(k)).map(|v| (v.key.0, v.payload.to_i()))
    }
    fn read(&self, h: u32) -> (i32, i32) {
        let v = SetCollection::value_by_index(self, h);
        (v.key.0, v.payload.to_i())
    }
    fn write(&mut self, h: u32, v: i32) {
        SetCollection::value_by_index_mut(self, h).payload = P::from_i(v);
    }
    fn fil(&self, k: i32) -> u32 {
        SetCollection::first_index_less(self, &OKey(k))
    }
    fn fil_by(&self, th: i32) -> u32 {
        SetCollection::first_index_less_by(self, inst::by_theta_oref(th))
    }
    fn after(&self, h: u32) -> u32 {
        SetCollection::index_after(self, h)
    }
    fn before(&self, h: u32) -> u32 {
        SetCollection::index_before(self, h)
    }
    fn clear(&mut self) {
        SetCollection::clear(self)
    }
    fn snap_json(&self) -> String {
        let s = self.verif_snapshot();
        if s.nodes.len() > MAX_SNAPSHOT_SLOTS {
            // resource cut-off, not a verdict: the size itself is logged and judged by TLC
            return format!("\"arena\":{{\"slots\":{},\"free\":{}}}", s.nodes.len(), s.unused.len());
        }
        let mut o = String::with_capacity(64 + 40 * s.nodes.len());
        snap_head(&mut o, s.root);
        for (i, n) in s.nodes.iter().enumerate() {
            if i > 0 {
                o.push(',');
            }
            let _ = write!(o, "[{},{},{},{},{},{},0]", r32(n.parent), r32(n.left), r32(n.right), n.red as u8, n.value.key.0, n.value.payload.to_i());
        }
        snap_tail(&mut o, &s.unused, s.unused_capacity);
        o
    }
    fn canon(&self) -> String {
        let s = self.verif_snapshot();
        let nodes: Vec<CNode> = s.nodes.iter().map(|n| CNode { l: n.left, r: n.right, red: n.red, k: n.value.key.0, v: n.value.payload.to_i() }).collect();
        canon_of(&nodes, s.root, s.unused.len())
    }
    fn stored_keys(&self) -> Option<Vec<i32>> {
        let s = self.verif_snapshot();
        let nodes: Vec<CNode> = s.nodes.iter().map(|n| CNode { l: n.left, r: n.right, red: n.red, k: n.value.key.0, v: 0 }).collect();
        Some(keys_of(&nodes, s.root))
    }
    fn free_slots(&self) -> Option<usize> {
        Some(self.verif_snapshot().unused.len())
    }
    fn from_snap(s: &Snap) -> Option<Self> {
        use i_tree::set::verif::{VerifNode, VerifSnapshot};
        let nodes = s
            .nd
            .iter()
            .map(|n| VerifNode { parent: u32r(n[0]), left: u32r(n[1]), right: u32r(n[2]), red: n[3] != 0, value: PV { key: OKey(n[4] as i32), payload: P::from_i(n[5] as i32) } })
            .collect();
        Some(SetTree::verif_load(VerifSnapshot { root: u32r(s.root), nodes, unused: s.free.clone(), unused_capacity: s.ucap }))
    }
}

// ---- SetTree over plain integers (the library's own `impl KeyValue<i32> for i32`) -------------
impl OrdColl for SetTree<i32, i32> {
    const KIND: &'static str = "SetTree";
    const HAS_SNAP: bool = true;
    const IS_SET: bool = true;
    const PLAIN: bool = true;
    fn name() -> String {
        "SetTree<i32,i32>".to_string()
    }
    fn make(cap: usize) -> Self {
        SetTree::new(cap)
    }
    fn is_empty(&self) -> bool {
        SetCollection::is_empty(self)
    }
    fn insert(&mut self, k: i32, _v: i32) {
        SetCollection::insert(self, k)
    }
    fn delete(&mut self, k: i32) {
        SetCollection::delete(self, &k)
    }
    fn delete_by_index(&mut self, h: u32) {
        SetCollection::delete_by_index(self, h)
    }
    fn get(&self, k: i32) -> Option<(i32, i32)> {
        SetCollection::get_value(self, &k).map(|v| (*v, *v))
    }
    fn read(&self, h: u32) -> (i32, i32) {
        let v = *SetCollection::value_by_index(self, h);
        (v, v)
    }
    fn write(&mut self, _h: u32, _v: i32) {}
    fn fil(&self, k: i32) -> u32 {
        SetCollection::first_index_less(self, &k)
    }
    fn fil_by(&self, th: i32) -> u32 {
        SetCollection::first_index_less_by(self, |key: &i32| (2 * *key).cmp(&th))
    }
    fn after(&self, h: u32) -> u32 {
        SetCollection::index_after(self, h)
    }
    fn before(&self, h: u32) -> u32 {
        SetCollection::index_before(self, h)
    }
    fn clear(&mut self) {
        SetCollection::clear(self)
    }
    fn snap_json(&self) -> String {
        let s = self.verif_snapshot();
        if s.nodes.len() > MAX_SNAPSHOT_SLOTS {
            // resource cut-off, not a verdict: the size itself is logged and judged by TLC
            return format!("\"arena\":{{\"slots\":{},\"free\":{}}}", s.nodes.len(), s.unused.len());
        }
        let mut o = String::with_capacity(64 + 40 * s.nodes.len());
        snap_head(&mut o, s.root);
        for (i, n) in s.nodes.iter().enumerate() {
            if i > 0 {
                o.push(',');
            }
            let _ = write!(o, "[{},{},{},{},{},{},0]", r32(n.parent), r32(n.left), r32(n.right), n.red as u8, n.value, n.value);
        }
        snap_tail(&mut o, &s.unused, s.unused_capacity);
        o
    }
    fn canon(&self) -> String {
        let s = self.verif_snapshot();
        let nodes: Vec<CNode> = s.nodes.iter().map(|n| CNode { l: n.left, r: n.right, red: n.red, k: n.value, v: n.value }).collect();
        canon_of(&nodes, s.root, s.unused.len())
    }
    fn stored_keys(&self) -> Option<Vec<i32>> {
        let s = self.verif_snapshot();
        let nodes: Vec<CNode> = s.nodes.iter().map(|n| CNode { l: n.left, r: n.right, red: n.red, k: n.value, v: 0 }).collect();
        Some(keys_of(&nodes, s.root))
    }
    fn free_slots(&self) -> Option<usize> {
        Some(self.verif_snapshot().unused.len())
    }
    fn from_snap(s: &Snap) -> Option<Self> {
        use i_tree::set::verif::{VerifNode, VerifSnapshot};
        // bare integers: the value is the key
        let nodes = s.nd.iter().map(|n| VerifNode { parent: u32r(n[0]), left: u32r(n[1]), right: u32r(n[2]), red: n[3] != 0, value: n[4] as i32 }).collect();
        Some(SetTree::verif_load(VerifSnapshot { root: u32r(s.root), nodes, unused: s.free.clone(), unused_capacity: s.ucap }))
    }
}

// ---- SetList ------------------------------------------------------------------------------
impl<P: Payload> OrdColl for SetList<PV<P>> {
    const COUNTED: bool = P::COUNTED;
    const KIND: &'static str = "SetList";
    const HAS_SNAP: bool = false;
    const IS_SET: bool = true;
    fn name() -> String {
        format!("SetList<{}>", P::NAME)
    }
    fn make(cap: usize) -> Self {
        SetList::new(cap)
    }
    fn is_empty(&self) -> bool {
        SetCollection::<OKey, PV<P>>::is_empty(self)
    }
    fn insert(&mut self, k: i32, v: i32) {
        SetCollection::<OKey, PV<P>>::insert(self, PV { key: OKey(k), payload: P::from_i(v) })
    }
    fn delete(&mut self, k: i32) {
        SetCollection::<OKey, PV<P>>::delete(self, &OKey(k))
    }
    fn delete_by_index(&mut self, h: u32) {
        SetCollection::<OKey, PV<P>>::delete_by_index(self, h)
    }
    fn get(&self, k: i32) -> Option<(i32, i32)> {
        SetCollection::<OKey, PV<P>>::get_value(self, &OKey(k)).map(|v| (v.key.0, v.payload.to_i()))
    }
    fn read(&self, h: u32) -> (i32, i32) {
        let v = SetCollection::<OKey, PV<P>>::value_by_index(self, h);
        (v.key.0, v.payload.to_i())
    }
    fn write(&mut self, h: u32, v: i32) {
        SetCollection::<OKey, PV<P>>::value_by_index_mut(self, h).payload = P::from_i(v);
    }
    fn fil(&self, k: i32) -> u32 {
        SetCollection::<OKey, PV<P>>::first_index_less(self, &OKey(k))
    }
    fn fil_by(&self, th: i32) -> u32 {
        SetCollection::<OKey, PV<P>>::first_index_less_by(self, inst::by_theta_oref(th))
    }
    fn after(&self, h: u32) -> u32 {
        SetCollection::<OKey, PV<P>>::index_after(self, h)
    }
    fn before(&self, h: u32) -> u32 {
        SetCollection::<OKey, PV<P>>::index_before(self, h)
    }
    fn clear(&mut self) {
        SetCollection::<OKey, PV<P>>::clear(self)
    }
    fn snap_json(&self) -> String {
        String::new()
    }
    fn canon(&self) -> String {
        String::new()
    }
}

#[derive(Clone, Debug)]
pub enum OOp {
    Ins { k: i32, v: i32 },
    Del { k: i32 },
    Get { k: i32 },
    Empty,
    Fil { p: i32 },
    FilBy { th: i32 },
    Read { h: u32 },
    Write { h: u32, v: i32 },
    DelH { h: u32 },
    After { h: u32 },
    Before { h: u32 },
    Clear,
    /// insert of every key lo, lo + step, .. <= hi (value k * 1000 + 7), observed as one call;
    /// ord: 0 ascending, 1 descending, 2 a fixed pseudo-random order
    Bulk { lo: i32, hi: i32, step: i32, ord: i32 },
    /// delete of every key lo, lo + step, .. <= hi, observed as one call (same orders)
    BulkDel { lo: i32, hi: i32, step: i32, ord: i32 },
}

pub fn bulk_keys(lo: i32, hi: i32, step: i32, ord: i32) -> Vec<i32> {
    let mut ks: Vec<i32> = (lo..=hi).step_by(step.max(1) as usize).collect();
    match ord {
        1 => ks.reverse(),
        2 => Rng::new(lo as u64 * 31 + hi as u64).shuffle(&mut ks),
        _ => {}
    }
    ks
}

impl OOp {
    /// rebuild the call from a logged event line
    pub fn from_event(line: &str) -> Option<OOp> {
        let n = |k: &str| fnum(line, k).map(|v| v as i32);
        let h = |k: &str| fnum(line, k).map(|v| if v < 0 { EMPTY_REF } else { v as u32 });
        Some(match fstr(line, "op")?.as_str() {
            "ins" => OOp::Ins { k: n("k")?, v: n("v")? },
            "del" => OOp::Del { k: n("k")? },
            "get" => OOp::Get { k: n("k")? },
            "empty" => OOp::Empty,
            "fil" => OOp::Fil { p: n("p")? },
            "filby" => OOp::FilBy { th: n("p")? },
            "read" => OOp::Read { h: h("h")? },
            "write" => OOp::Write { h: h("h")?, v: n("v")? },
            "delh" => OOp::DelH { h: h("h")? },
            "after" => OOp::After { h: h("h")? },
            "before" => OOp::Before { h: h("h")? },
            "clear" => OOp::Clear,
            "bulk" => OOp::Bulk { lo: n("lo")?, hi: n("hi")?, step: n("step")?, ord: n("ord")? },
            "bulkdel" => OOp::BulkDel { lo: n("lo")?, hi: n("hi")?, step: n("step")?, ord: n("ord")? },
            _ => return None,
        })
    }
    pub fn desc(&self) -> String {
        match self {
            OOp::Ins { k, v } => format!("\"op\":\"ins\",\"k\":{k},\"v\":{v}"),
            OOp::Del { k } => format!("\"op\":\"del\",\"k\":{k}"),
            OOp::Get { k } => format!("\"op\":\"get\",\"k\":{k}"),
            OOp::Empty => "\"op\":\"empty\"".to_string(),
            OOp::Fil { p } => format!("\"op\":\"fil\",\"p\":{p}"),
            OOp::FilBy { th } => format!("\"op\":\"filby\",\"p\":{th}"),
            OOp::Read { h } => format!("\"op\":\"read\",\"h\":{}", r32(*h)),
            OOp::Write { h, v } => format!("\"op\":\"write\",\"h\":{},\"v\":{v}", r32(*h)),
            OOp::DelH { h } => format!("\"op\":\"delh\",\"h\":{}", r32(*h)),
            OOp::After { h } => format!("\"op\":\"after\",\"h\":{}", r32(*h)),
            OOp::Before { h } => format!("\"op\":\"before\",\"h\":{}", r32(*h)),
            OOp::Clear => "\"op\":\"clear\"".to_string(),
            OOp::Bulk { lo, hi, step, ord } => format!("\"op\":\"bulk\",\"lo\":{lo},\"hi\":{hi},\"step\":{step},\"ord\":{ord}"),
            OOp::BulkDel { lo, hi, step, ord } => format!("\"op\":\"bulkdel\",\"lo\":{lo},\"hi\":{hi},\"step\":{step},\"ord\":{ord}"),
        }
    }
}

/// path operations as TLC prints them (handles are named by the key they are taken for)
#[derive(Clone, Debug)]
pub enum POp {
    Ins { k: i32, v: i32 },
    Del { k: i32 },
    DelHK { k: i32 },
    WriteK { k: i32, v: i32 },
    Clear,
    /// every read-only call of the alphabet (logged); used by the clear-twin runs
    Queries,
}
impl POp {
    pub fn to_path(&self) -> String {
        match self {
            POp::Ins { k, v } => format!("i {k} {v}"),
            POp::Del { k } => format!("d {k}"),
            POp::DelHK { k } => format!("dh {k}"),
            POp::WriteK { k, v } => format!("w {k} {v}"),
            POp::Clear => "c".to_string(),
            POp::Queries => "q".to_string(),
        }
    }
    pub fn parse(s: &str) -> POp {
        let f: Vec<&str> = s.split_whitespace().collect();
        let n = |i: usize| -> i32 { f[i].parse().expect("number in path op") };
        match f[0] {
            "i" => POp::Ins { k: n(1), v: n(2) },
            "d" => POp::Del { k: n(1) },
            "dh" => POp::DelHK { k: n(1) },
            "w" => POp::WriteK { k: n(1), v: n(2) },
            "c" => POp::Clear,
            "q" => POp::Queries,
            other => panic!("unknown path op {other}"),
        }
    }
}

pub struct Applied {
    pub ok: bool,
    pub unwound: bool,
    /// the integer result of the call (handle, value, flag), when it completed
    pub res: i64,
    /// key read through the returned / given handle (-1 when unknown)
    pub key: i32,
}

/// constructs the collection under observation: a panicking constructor becomes the last event
fn make_observed<C: OrdColl>(tr: &mut Trace, cap: usize) -> C {
    tr.pre(&format!("\"op\":\"construct\",\"cap\":{},\"out\":\"aborted\"", cap));
    match observe(0, || C::make(cap)).out {
        Outcome::Ok(c) => c,
        Outcome::Panic(m) => {
            tr.line(&format!("\"ev\":\"op\",\"op\":\"construct\",\"cap\":{},\"out\":\"panic\",\"msg\":\"{}\"", cap, esc(&m)));
            tr.end_after_fatal()
        }
        Outcome::Unwound(_) => unreachable!(),
    }
}

pub struct OrdSession<'a, C: OrdColl> {
    pub c: C,
    pub tr: &'a mut Trace,
    /// keys the harness believes present: its own record of what it asked for, used only to
    /// stay inside the contract (insert absent keys) and to choose interesting calls
    pub mine: BTreeSet<i32>,
    pub keys: i32,
    pub cap: usize,
    pub obs_every: u64,
    /// ship the snapshot only with every n-th call (large trees); 1 = always
    pub snap_every: u64,
    opcount: u64,
    pub version: i32,
    pub dead: bool,
}

impl<'a, C: OrdColl> OrdSession<'a, C> {
    pub fn new(tr: &'a mut Trace, keys: i32, cap: usize, obs_every: u64) -> Self {
        let c = make_observed::<C>(tr, cap);
        let mut s = OrdSession { c, tr, mine: BTreeSet::new(), keys, cap, obs_every, snap_every: 1, opcount: 0, version: 0, dead: false };
        s.log_reset();
        s
    }
    fn log_reset(&mut self) {
        let snap = self.c.snap_json();
        let sep = if snap.is_empty() { "" } else { "," };
        self.tr.line(&format!(
            "\"ev\":\"reset\",\"coll\":\"{}\",\"kind\":\"{}\",\"set\":{},\"cap\":{},\"se\":{}{}{}",
            C::name(),
            C::KIND,
            C::IS_SET as u8,
            self.cap,
            self.snap_every,
            sep,
            snap
        ));
    }
    /// replaces the instance by `new` and drops the old one under observation; with an instance-counting
    /// payload the number of payload instances the old collection leaves behind is logged (must be 0)
    fn swap_and_drop(&mut self, new: C, own: i64) {
        let old = std::mem::replace(&mut self.c, new);
        if !C::COUNTED {
            drop(old);
            return;
        }
        self.tr.pre("\"op\":\"drop\",\"out\":\"aborted\"");
        let o = observe(0, move || drop(old));
        let residue = inst::live() - own;
        self.tr.line(&format!("\"ev\":\"op\",\"op\":\"drop\",\"residue\":{},{}", residue, out_fields(&o)));
    }
    pub fn reset(&mut self, cap: usize) {
        self.cap = cap;
        let before = inst::live();
        let new = make_observed::<C>(self.tr, cap);
        let own = inst::live() - before;
        self.swap_and_drop(new, own);
        self.mine.clear();
        self.dead = false;
        self.log_reset();
    }
    pub fn next_value(&mut self, k: i32) -> i32 {
        self.version = (self.version + 1) % 100;
        k * 1000 + self.version
    }
    fn obs_json(&mut self) -> String {
        let keys = self.keys;
        let c = &self.c;
        self.tr.pre("\"op\":\"obs-sweep\",\"out\":\"aborted\"");
        let r = observe(0, || {
            let mut o = String::from("\"obs\":[");
            let mut first = true;
            for k in 0..=keys + 1 {
                if let Some((rk, v)) = c.get(k) {
                    if !first {
                        o.push(',');
                    }
                    first = false;
                    let _ = write!(o, "[{},{},{}]", k, rk, v);
                }
            }
            let _ = write!(o, "],\"oe\":{}", c.is_empty() as u8);
            o
        });
        match r.out {
            Outcome::Ok(o) => o,
            _ => "\"obspanic\":1".to_string(),
        }
    }
    fn state_fields(&mut self, force_obs: bool) -> String {
        if C::HAS_SNAP {
            if force_obs || self.snap_every <= 1 || self.opcount % self.snap_every == 0 {
                self.c.snap_json()
            } else {
                String::new()
            }
        } else if force_obs || (self.obs_every > 0 && self.opcount % self.obs_every == 0) {
            self.obs_json()
        } else {
            String::new()
        }
    }

    /// unlogged replay of a path, then a `load` event (trees) - the start of a fan-out segment
    pub fn load(&mut self, path: &[POp], cap: usize) {
        assert!(C::HAS_SNAP);
        self.cap = cap;
        self.mine.clear();
        self.dead = false;
        // the replay is not logged call by call, but it is still the code under test: a panic inside
        // it must not take the harness down (journal mode records it as one pseudo call)
        self.tr.pre("\"op\":\"load-replay\",\"out\":\"aborted\"");
        let mut mine = BTreeSet::new();
        let o = observe(0, || {
            let mut c = C::make(cap);
            for op in path {
                match op {
                    POp::Ins { k, v } => {
                        c.insert(*k, if C::PLAIN { *k } else { *v });
                        mine.insert(*k);
                    }
                    POp::Del { k } => {
                        c.delete(*k);
                        mine.remove(k);
                    }
                    POp::DelHK { k } => {
                        let h = c.fil(*k);
                        if h != EMPTY_REF {
                            c.delete_by_index(h);
                        }
                        mine.remove(k);
                    }
                    POp::WriteK { k, v } => {
                        let h = c.fil(*k);
                        if h != EMPTY_REF {
                            c.write(h, *v);
                        }
                    }
                    POp::Clear => {
                        c.clear();
                        mine.clear();
                    }
                    POp::Queries => {}
                }
            }
            c
        });
        match o.out {
            Outcome::Ok(c) => {
                self.c = c;
                self.mine = match self.c.stored_keys() {
                    Some(ks) => ks.into_iter().collect(),
                    None => mine,
                };
            }
            _ => {
                // replay the path again, this time logged, so that the failing call becomes an event
                self.reset(cap);
                for op in path {
                    if self.dead {
                        break;
                    }
                    self.apply_path_op(op);
                }
                return;
            }
        }
        let snap = self.c.snap_json();
        let ptxt: Vec<String> = path.iter().map(|o| o.to_path()).collect();
        self.tr.line(&format!(
            "\"ev\":\"load\",\"coll\":\"{}\",\"kind\":\"{}\",\"set\":{},\"cap\":{},\"path\":\"{}\",{}",
            C::name(),
            C::KIND,
            C::IS_SET as u8,
            cap,
            ptxt.join(";"),
            snap
        ));
    }

    /// start of a one-step segment: the collection is put into the given arena state through the
    /// `verif_load` hook (a start state of IndOrd.tla, or the `load` event of a replay file)
    pub fn load_snap(&mut self, snap: &Snap, cap: usize) -> bool {
        assert!(C::HAS_SNAP);
        self.cap = cap;
        self.mine.clear();
        self.dead = false;
        self.tr.pre("\"op\":\"load-snap\",\"out\":\"aborted\"");
        let o = observe(0, || C::from_snap(snap));
        match o.out {
            Outcome::Ok(Some(c)) => {
                self.c = c;
                self.mine = self.c.stored_keys().unwrap_or_default().into_iter().collect();
            }
            _ => {
                self.dead = true;
                return false;
            }
        }
        let snapj = self.c.snap_json();
        self.tr.line(&format!(
            "\"ev\":\"load\",\"coll\":\"{}\",\"kind\":\"{}\",\"set\":{},\"cap\":{},\"path\":\"\",\"ind\":1,{}",
            C::name(),
            C::KIND,
            C::IS_SET as u8,
            cap,
            snapj
        ));
        true
    }

    /// a logged path step (handles named by key are acquired by a logged query first)
    pub fn apply_path_op(&mut self, op: &POp) {
        match op {
            POp::Ins { k, v } => {
                self.apply(&OOp::Ins { k: *k, v: *v }, 0);
            }
            POp::Del { k } => {
                self.apply(&OOp::Del { k: *k }, 0);
            }
            POp::DelHK { k } => {
                let a = self.apply(&OOp::Fil { p: *k }, 0);
                if a.ok && a.res >= 0 {
                    self.apply(&OOp::DelH { h: a.res as u32 }, 0);
                    self.mine.remove(k);
                }
            }
            POp::WriteK { k, v } => {
                let a = self.apply(&OOp::Fil { p: *k }, 0);
                if a.ok && a.res >= 0 {
                    self.apply(&OOp::Write { h: a.res as u32, v: *v }, 0);
                }
            }
            POp::Clear => {
                self.apply(&OOp::Clear, 0);
            }
            POp::Queries => self.queries(),
        }
    }

    pub fn apply(&mut self, op: &OOp, arm: u64) -> Applied {
        // bare-integer sets: the value is the key; there is no payload to write
        let adapted;
        let op = if C::PLAIN {
            adapted = match op {
                OOp::Ins { k, .. } => OOp::Ins { k: *k, v: *k },
                OOp::Write { h, .. } => OOp::Read { h: *h },
                o => o.clone(),
            };
            &adapted
        } else {
            op
        };
        self.opcount += 1;
        let desc = op.desc();
        if self.snap_every <= 1 {
            let st = if C::HAS_SNAP { self.c.canon() } else { format!("{:?}", self.mine) };
            self.tr.pair(&st, &desc);
        }
        self.tr.pre(&format!("{},\"out\":\"aborted\"", desc));
        let c = &mut self.c;
        let mut extra = String::new();
        let mut seen_key: i32 = -1;
        // a handle result is followed by a read through it (a second, separate library call)
        let o = match op {
            OOp::Ins { k, v } => {
                let o = observe(arm, || {
                    c.insert(*k, *v);
                    0i64
                });
                self.mine.insert(*k);
                o
            }
            OOp::Bulk { lo, hi, step, ord } => {
                let ks = bulk_keys(*lo, *hi, *step, *ord);
                let (vm, va) = if C::PLAIN { (1, 0) } else if *hi > 1_000_000 { (100, 7) } else { (1000, 7) };
                let _ = write!(extra, ",\"vm\":{},\"va\":{}", vm, va);
                let o = observe(arm, || {
                    for k in &ks {
                        c.insert(*k, *k * vm + va);
                    }
                    0i64
                });
                self.mine.extend(ks);
                o
            }
            OOp::BulkDel { lo, hi, step, ord } => {
                let ks = bulk_keys(*lo, *hi, *step, *ord);
                let o = observe(arm, || {
                    for k in &ks {
                        c.delete(*k);
                    }
                    0i64
                });
                for k in ks {
                    self.mine.remove(&k);
                }
                o
            }
            OOp::Del { k } => {
                let o = observe(arm, || {
                    c.delete(*k);
                    0i64
                });
                if matches!(o.out, Outcome::Ok(_)) {
                    self.mine.remove(k);
                }
                o
            }
            OOp::Get { k } => {
                let mut rk = -1;
                let o = observe(arm, || match c.get(*k) {
                    Some((kk, v)) => {
                        rk = kk;
                        v as i64
                    }
                    None => NOVAL,
                });
                let _ = write!(extra, ",\"rk\":{}", rk);
                o
            }
            OOp::Empty => observe(arm, || c.is_empty() as i64),
            OOp::Fil { .. } | OOp::FilBy { .. } | OOp::After { .. } | OOp::Before { .. } => {
                let o = observe(arm, || match op {
                    OOp::Fil { p } => r32(c.fil(*p)),
                    OOp::FilBy { th } => r32(c.fil_by(*th)),
                    OOp::After { h } => r32(c.after(*h)),
                    OOp::Before { h } => r32(c.before(*h)),
                    _ => unreachable!(),
                });
                if let Outcome::Ok(h) = o.out {
                    if h >= 0 {
                        // dereference the handle at once; should that read kill the process, the journal
                        // still shows that the query itself returned `h`
                        self.tr.pre(&format!("{},\"res\":{},\"out\":\"ok\",\"rdout\":\"aborted\"", desc, h));
                        let rd = observe(0, || c.read(h as u32));
                        match rd.out {
                            Outcome::Ok((rk, rv)) => {
                                let _ = write!(extra, ",\"rk\":{},\"rv\":{}", rk, rv);
                                seen_key = if C::IS_SET { rk } else { rv.div_euclid(1000) };
                            }
                            _ => {
                                let _ = write!(extra, ",\"rdout\":\"panic\"");
                            }
                        }
                    }
                }
                o
            }
            OOp::Read { h } => {
                let mut rk = -1;
                let o = observe(arm, || {
                    let (kk, v) = c.read(*h);
                    rk = kk;
                    v as i64
                });
                let _ = write!(extra, ",\"rk\":{}", rk);
                if let Outcome::Ok(v) = o.out {
                    seen_key = if C::IS_SET { rk } else { (v as i32).div_euclid(1000) };
                }
                o
            }
            OOp::Write { h, v } => observe(arm, || {
                c.write(*h, *v);
                0i64
            }),
            OOp::DelH { h } => observe(arm, || {
                c.delete_by_index(*h);
                0i64
            }),
            OOp::Clear => {
                let o = observe(arm, || {
                    c.clear();
                    0i64
                });
                self.mine.clear();
                o
            }
        };
        let mut res = 0i64;
        let ok = matches!(o.out, Outcome::Ok(_));
        if let Outcome::Ok(r) = &o.out {
            res = *r;
            match op {
                OOp::Ins { .. } | OOp::Del { .. } | OOp::Write { .. } | OOp::DelH { .. } | OOp::Clear | OOp::Bulk { .. } | OOp::BulkDel { .. } => {}
                _ => {
                    let _ = write!(extra, ",\"res\":{}", r);
                }
            }
        }
        let unwound = matches!(o.out, Outcome::Unwound(_));
        if matches!(o.out, Outcome::Panic(_)) {
            self.dead = true;
        }
        let fields = out_fields(&o);
        let stf = self.state_fields(unwound);
        let sep = if stf.is_empty() { "" } else { "," };
        self.tr.line(&format!("\"ev\":\"op\",{}{},{},\"ncb\":{}{}{}", desc, extra, fields, o.ncb, sep, stf));
        Applied { ok, unwound, res, key: seen_key }
    }

    fn handle_of(&mut self, k: i32) -> Option<u32> {
        let a = self.apply(&OOp::Fil { p: k }, 0);
        if a.ok && a.res >= 0 {
            Some(a.res as u32)
        } else {
            None
        }
    }

    /// every read-only call of the alphabet at the current state (the state is left untouched)
    pub fn queries(&mut self) {
        self.apply(&OOp::Empty, 0);
        for p in 0..=self.keys + 1 {
            self.apply(&OOp::Get { k: p }, 0);
            self.apply(&OOp::Fil { p }, 0);
        }
        for th in 1..=2 * self.keys + 1 {
            self.apply(&OOp::FilBy { th }, 0);
        }
        if C::IS_SET {
            // both neighbour steps from every stored entry
            let stored: Vec<i32> = self.mine.iter().cloned().collect();
            for k in &stored {
                if let Some(h) = self.handle_of(*k) {
                    self.apply(&OOp::After { h }, 0);
                    self.apply(&OOp::Before { h }, 0);
                }
            }
            self.walks();
        }
    }

    /// look-ups for the extremes, for `n` random probes (stored keys and gaps alike) and for the
    /// neighbours of every probed key; on a set also neighbour steps from the handles returned
    pub fn sample_queries(&mut self, rng: &mut Rng, n: usize) {
        if self.dead {
            return;
        }
        self.apply(&OOp::Empty, 0);
        let top = self.mine.iter().next_back().cloned().unwrap_or(0) + 2;
        let mut probes: Vec<i32> = vec![0, 1, 2, top - 2, top - 1, top];
        for _ in 0..n {
            let p = rng.range(0, top as i64) as i32;
            probes.extend([p - 1, p, p + 1]);
        }
        // every stored key must be found once when the collection is small enough
        if self.mine.len() <= 160 && n >= 16 {
            probes.extend(self.mine.iter().cloned());
        }
        for p in probes {
            if self.dead {
                return;
            }
            let p = p.max(0);
            self.apply(&OOp::Get { k: p }, 0);
            let a = self.apply(&OOp::Fil { p }, 0);
            if C::IS_SET && a.ok && a.res >= 0 {
                self.apply(&OOp::After { h: a.res as u32 }, 0);
                self.apply(&OOp::Before { h: a.res as u32 }, 0);
            }
            self.apply(&OOp::FilBy { th: 2 * p + 1 }, 0);
        }
    }

    /// delete every key the harness believes present (and every key of a small universe), ask for
    /// emptiness, insert one key again
    pub fn drain_and_refill(&mut self) {
        let mut ks: Vec<i32> = self.mine.iter().cloned().collect();
        if self.keys <= 24 {
            ks = (0..=self.keys + 1).collect();
        }
        for k in ks {
            if self.dead {
                return;
            }
            self.apply(&OOp::Del { k }, 0);
        }
        self.apply(&OOp::Empty, 0);
        let v = self.next_value(1);
        self.apply(&OOp::Ins { k: 1, v }, 0);
        self.apply(&OOp::Empty, 0);
        self.apply(&OOp::Get { k: 1 }, 0);
    }

    /// every callback index of one call: the j-th user callback panics, the state is logged, the
    /// collection is looked at (`sample`); repeated until the call completes.  The caller keeps going
    /// with the collection as the completed call leaves it.
    pub fn enumerate_faults(&mut self, op: &OOp, rng: &mut Rng) {
        let mut j = 1u64;
        loop {
            if self.dead {
                return;
            }
            let a = self.apply(op, j);
            if !a.unwound {
                return;
            }
            // an unwound insert may or may not have stored its key: learn it from the snapshot (trees);
            // for the lists the harness keeps its record and never re-inserts the key in this segment
            if let OOp::Ins { k, .. } = op {
                if C::HAS_SNAP {
                    self.mine = self.c.stored_keys().unwrap_or_default().into_iter().collect();
                } else {
                    self.mine.remove(k);
                }
            }
            self.sample_queries(rng, 4);
            j += 1;
            if j > 400 {
                return;
            }
        }
    }

    /// full backward and forward walks over a set by neighbour steps, with a step budget
    pub fn walks(&mut self) {
        if C::IS_SET {
            let budget = self.mine.len() + 2;
            if let Some(mut h) = self.handle_of(self.keys + 1) {
                // backwards from the maximum
                let mut first = h;
                for _ in 0..budget {
                    let a = self.apply(&OOp::Before { h }, 0);
                    if !a.ok || a.res < 0 {
                        break;
                    }
                    h = a.res as u32;
                    first = h;
                }
                // forwards from where the backward walk ended
                let mut h = first;
                for _ in 0..budget {
                    let a = self.apply(&OOp::After { h }, 0);
                    if !a.ok || a.res < 0 {
                        break;
                    }
                    h = a.res as u32;
                }
            }
        }
    }
}

pub fn parse_paths(text: &str) -> Vec<(usize, Vec<POp>)> {
    let mut out = vec![];
    for line in text.lines() {
        let line = line.trim();
        if line.is_empty() || line.starts_with('#') {
            continue;
        }
        let (cap, rest) = match line.split_once('|') {
            Some((c, r)) => (c.trim().parse::<usize>().expect("cap"), r),
            None => (0usize, line),
        };
        let ops: Vec<POp> = rest.split(';').map(|s| s.trim()).filter(|s| !s.is_empty()).map(POp::parse).collect();
        out.push((cap, ops));
    }
    out
}

fn reload<C: OrdColl>(s: &mut OrdSession<C>, path: &[POp], cap: usize) {
    if C::HAS_SNAP {
        s.load(path, cap);
    } else {
        s.reset(cap);
        let save = s.obs_every;
        s.obs_every = 0;
        for op in path {
            s.apply_path_op(op);
        }
        s.obs_every = save;
    }
}

/// replay TLC-generated paths (logged), then fan out the whole alphabet from each end state
pub fn run_paths<C: OrdColl>(tr: &mut Trace, paths: &[(usize, Vec<POp>)], keys: i32, fanout: bool) {
    let mut s: OrdSession<C> = OrdSession::new(tr, keys, 0, 1);
    for (cap, path) in paths {
        if s.tr.full() {
            break;
        }
        s.reset(*cap);
        for op in path {
            s.apply_path_op(op);
        }
        if !fanout {
            continue;
        }
        // read-only part: no reload needed
        s.queries();
        let stored: Vec<i32> = s.mine.iter().cloned().collect();
        let absent: Vec<i32> = (1..=keys).filter(|k| !s.mine.contains(k)).collect();
        // mutations, each from a re-created state
        for k in &absent {
            reload(&mut s, path, *cap);
            let v = k * 1000 + 77;
            s.apply(&OOp::Ins { k: *k, v }, 0);
        }
        for k in 0..=keys + 1 {
            reload(&mut s, path, *cap);
            s.apply(&OOp::Del { k }, 0);
        }
        for k in &stored {
            reload(&mut s, path, *cap);
            if let Some(h) = s.handle_of(*k) {
                s.apply(&OOp::Write { h, v: k * 1000 + 88 }, 0);
                s.apply(&OOp::Read { h }, 0);
            }
            reload(&mut s, path, *cap);
            if let Some(h) = s.handle_of(*k) {
                s.apply(&OOp::DelH { h }, 0);
            }
        }
        // via the comparator form and gap probes as well
        for th in 1..=2 * keys + 1 {
            if stored.is_empty() {
                break;
            }
            reload(&mut s, path, *cap);
            let a = s.apply(&OOp::FilBy { th }, 0);
            if a.ok && a.res >= 0 {
                s.apply(&OOp::DelH { h: a.res as u32 }, 0);
            }
        }
        reload(&mut s, path, *cap);
        s.apply(&OOp::Clear, 0);
        s.apply(&OOp::Empty, 0);
        // nothing a look-up leaves behind may survive a clear: look-ups of a key, clear, the same look-ups
        for k in &stored {
            reload(&mut s, path, *cap);
            s.apply(&OOp::Get { k: *k }, 0);
            s.apply(&OOp::Fil { p: *k }, 0);
            s.apply(&OOp::FilBy { th: 2 * *k + 1 }, 0);
            s.apply(&OOp::Clear, 0);
            s.apply(&OOp::Get { k: *k }, 0);
            s.apply(&OOp::Fil { p: *k }, 0);
            s.apply(&OOp::FilBy { th: 2 * *k + 1 }, 0);
            s.apply(&OOp::Empty, 0);
            s.apply(&OOp::Ins { k: *k, v: k * 1000 + 35 }, 0);
            s.apply(&OOp::Get { k: *k }, 0);
            s.apply(&OOp::Fil { p: *k }, 0);
        }
        // handles held across insertions (trees only): ascending and descending insertion orders
        if C::HAS_SNAP && !stored.is_empty() && !absent.is_empty() {
            for rev in [false, true] {
                reload(&mut s, path, *cap);
                let mut hs = vec![];
                for k in &stored {
                    if let Some(h) = s.handle_of(*k) {
                        hs.push(h);
                    }
                }
                let mut order = absent.clone();
                if rev {
                    order.reverse();
                }
                for k in order {
                    s.apply(&OOp::Ins { k, v: k * 1000 + 66 }, 0);
                    for h in &hs {
                        s.apply(&OOp::Read { h: *h }, 0);
                    }
                    // the key-based query must still return the same handle
                    for kk in &stored {
                        s.apply(&OOp::Fil { p: *kk }, 0);
                    }
                }
            }
        }
    }
}

/// Query - update - update - use: state that a look-up may leave behind (a remembered successor, an
/// insertion place) must not survive the updates that invalidate it.  From every covered state: a
/// predecessor query for every probe, then every pair of updates (insertions of absent keys, removals
/// of present ones), then - as far as the contract still allows - a neighbour step / read / write
/// through the handle the query returned, the insertion of the probed key, and look-ups of every key.
pub fn run_triples<C: OrdColl>(tr: &mut Trace, paths: &[(usize, Vec<POp>)], keys: i32) {
    let mut s: OrdSession<C> = OrdSession::new(tr, keys, 0, 1);
    for (cap, path) in paths {
        if s.tr.full() {
            break;
        }
        reload(&mut s, path, *cap);
        let stored: Vec<i32> = s.mine.iter().cloned().collect();
        let absent: Vec<i32> = (1..=keys).filter(|k| !stored.contains(k)).collect();
        #[derive(Clone, Copy, PartialEq)]
        enum U {
            Ins(i32),
            Del(i32),
            None,
        }
        let mut ups: Vec<U> = absent.iter().map(|k| U::Ins(*k)).chain(stored.iter().map(|k| U::Del(*k))).collect();
        ups.push(U::None);
        for p in 0..=keys + 1 {
            for u1 in &ups {
                for u2 in &ups {
                    if *u1 == U::None || (u1 == u2) {
                        continue;
                    }
                    if let (U::Ins(a), U::Del(b)) = (u1, u2) {
                        if a == b {
                            continue; // (insert k; delete k) is covered by the plain fan-out
                        }
                    }
                    if s.tr.full() {
                        return;
                    }
                    reload(&mut s, path, *cap);
                    let q = s.apply(&OOp::Fil { p }, 0);
                    let mut deleted = false;
                    for u in [u1, u2] {
                        match u {
                            U::Ins(k) => {
                                if !s.mine.contains(k) {
                                    s.apply(&OOp::Ins { k: *k, v: k * 1000 + 33 }, 0);
                                }
                            }
                            U::Del(k) => {
                                s.apply(&OOp::Del { k: *k }, 0);
                                deleted = true;
                            }
                            U::None => {}
                        }
                    }
                    if q.ok && q.res >= 0 && !deleted && C::HAS_SNAP {
                        // the handle is still issued (no removal since): step from it, read and write through it
                        let h = q.res as u32;
                        if C::IS_SET {
                            s.apply(&OOp::After { h }, 0);
                            s.apply(&OOp::Before { h }, 0);
                        }
                        s.apply(&OOp::Read { h }, 0);
                        s.apply(&OOp::Write { h, v: 777 }, 0);
                    }
                    if p >= 1 && p <= keys && !s.mine.contains(&p) {
                        s.apply(&OOp::Ins { k: p, v: p * 1000 + 34 }, 0);
                    }
                    for k in 1..=keys {
                        s.apply(&OOp::Get { k }, 0);
                    }
                    if C::IS_SET {
                        s.walks();
                    }
                }
            }
        }
    }
}

/// fault enumeration: every callback index of every call of the alphabet
pub fn run_faults<C: OrdColl>(tr: &mut Trace, paths: &[(usize, Vec<POp>)], keys: i32) {
    let mut s: OrdSession<C> = OrdSession::new(tr, keys, 0, 1);
    for (cap, path) in paths {
        if s.tr.full() {
            break;
        }
        reload(&mut s, path, *cap);
        let stored: Vec<i32> = s.mine.iter().cloned().collect();
        let mut calls: Vec<OOp> = vec![];
        for k in 0..=keys + 1 {
            calls.push(OOp::Get { k });
            calls.push(OOp::Fil { p: k });
            calls.push(OOp::Del { k });
            if k >= 1 && k <= keys && !stored.contains(&k) {
                calls.push(OOp::Ins { k, v: k * 1000 + 55 });
            }
        }
        for th in 1..=2 * keys + 1 {
            calls.push(OOp::FilBy { th });
        }
        let mut dirty = false;
        for call in &calls {
            let mut j = 1u64;
            loop {
                if dirty {
                    reload(&mut s, path, *cap);
                }
                dirty = true;
                let a = s.apply(call, j);
                // still usable: observe everything, mutate again, observe again.  The same follow-up
                // is also made after the run in which no callback panicked (the control): a defect of
                // the follow-up calls themselves then shows without any panic, too
                s.queries();
                let absent: Vec<i32> = (1..=keys).filter(|k| !s.mine.contains(k)).collect();
                if let Some(k) = absent.first() {
                    s.apply(&OOp::Ins { k: *k, v: k * 1000 + 44 }, 0);
                }
                if let Some(k) = stored.first() {
                    s.apply(&OOp::Del { k: *k }, 0);
                }
                s.apply(&OOp::Get { k: 1 }, 0);
                // ... and, after a mutation, emptied completely: it must say so, and take entries again
                if matches!(call, OOp::Ins { .. } | OOp::Del { .. }) {
                    s.drain_and_refill();
                }
                if !a.unwound {
                    break;
                }
                j += 1;
                if j > 200 {
                    break;
                }
            }
        }
    }
}

/// Start states are trees the *specification* allows.  An implementation may keep a stronger invariant
/// of its own - the textbook "the root is black" above all - and then a red-rooted start state is one
/// it can never be in.  The original leaves the root red when a two-entry tree loses its (black) root;
/// the drivers use red-rooted start states only with an implementation that does the same.
fn leaves_roots_red<C: OrdColl>() -> bool {
    let r = observe(0, || {
        let mut c = C::make(0);
        c.insert(1, if C::PLAIN { 1 } else { 1001 });
        c.insert(2, if C::PLAIN { 2 } else { 2001 });
        c.delete(1);
        c.snap_json()
    });
    match r.out {
        Outcome::Ok(j) => parse_snap(&j).map_or(false, |s| s.root >= 0 && (s.root as usize) < s.nd.len() && s.nd[s.root as usize][3] == 1),
        _ => false,
    }
}
fn root_is_red(s: &Snap) -> bool {
    s.root >= 0 && (s.root as usize) < s.nd.len() && s.nd[s.root as usize][3] == 1
}

/// One step of every kind from every start state TLC printed for IndOrd.tla (every valid red-black
/// tree up to a size, in several arena situations): the real collection is put into the state through
/// the load hook, the call is made, TLC validates the result.  `handles`: before an insertion a handle
/// is taken for every stored entry, so that the insert is judged for handle stability as well.
pub fn run_ind<C: OrdColl>(tr: &mut Trace, states: &[Snap], handles: bool) {
    let red_roots = leaves_roots_red::<C>();
    let mut s: OrdSession<C> = OrdSession::new(tr, 1, 0, 1);
    for snap in states {
        if s.tr.full() {
            break;
        }
        if root_is_red(snap) && !red_roots {
            continue;
        }
        let cap = 0usize;
        if !s.load_snap(snap, cap) {
            continue;
        }
        let stored: Vec<i32> = s.mine.iter().cloned().collect();
        let top = stored.last().cloned().unwrap_or(0) + 1;
        s.keys = top;
        s.queries();
        let absent: Vec<i32> = (1..=top).filter(|k| !s.mine.contains(k)).collect();
        for k in &absent {
            s.load_snap(snap, cap);
            if handles {
                for kk in &stored {
                    s.apply(&OOp::Fil { p: *kk }, 0);
                }
            }
            s.apply(&OOp::Ins { k: *k, v: k * 1000 + 77 }, 0);
        }
        for k in stored.iter().cloned().chain([0, top]) {
            s.load_snap(snap, cap);
            s.apply(&OOp::Del { k }, 0);
        }
        for k in &stored {
            s.load_snap(snap, cap);
            if let Some(h) = s.handle_of(*k) {
                s.apply(&OOp::Write { h, v: k * 1000 + 88 }, 0);
                s.apply(&OOp::Read { h }, 0);
            }
            s.load_snap(snap, cap);
            if let Some(h) = s.handle_of(*k) {
                s.apply(&OOp::DelH { h }, 0);
            }
        }
        s.load_snap(snap, cap);
        s.apply(&OOp::Clear, 0);
        s.apply(&OOp::Empty, 0);
    }
}

/// Fault enumeration from the start states of IndOrd.tla (every valid red-black tree up to a size):
/// every look-up, handle query, removal and insertion with its j-th callback panicking, j = 1, 2, ..
/// until the call completes; after each the stored keys are looked up and emptiness is asked.
pub fn run_ind_faults<C: OrdColl>(tr: &mut Trace, states: &[Snap]) {
    let red_roots = leaves_roots_red::<C>();
    let mut s: OrdSession<C> = OrdSession::new(tr, 1, 0, 1);
    for snap in states {
        if s.tr.full() {
            break;
        }
        if root_is_red(snap) && !red_roots {
            continue;
        }
        if !s.load_snap(snap, 0) {
            continue;
        }
        let stored: Vec<i32> = s.mine.iter().cloned().collect();
        let top = stored.last().cloned().unwrap_or(0) + 1;
        s.keys = top;
        let mut calls: Vec<OOp> = vec![];
        for p in 0..=top {
            calls.push(OOp::Get { k: p });
            if stored.contains(&p) {
                calls.push(OOp::Del { k: p });
                calls.push(OOp::Fil { p });
            } else {
                calls.push(OOp::FilBy { th: 2 * p });
                if p >= 1 {
                    calls.push(OOp::Ins { k: p, v: p * 1000 + 55 });
                }
            }
        }
        for call in &calls {
            let mut j = 1u64;
            loop {
                if !s.load_snap(snap, 0) {
                    break;
                }
                let a = s.apply(call, j);
                for k in stored.iter().take(2) {
                    s.apply(&OOp::Get { k: *k }, 0);
                }
                s.apply(&OOp::Empty, 0);
                if !a.unwound || j > 120 {
                    break;
                }
                j += 1;
            }
        }
    }
}

/// Threshold sweep: structures far larger than the exhaustive universes, driven deterministically
/// through the sizes at which arenas grow, buffers reallocate and fast paths switch.  `plan` is a list
/// `n1:n2` - fill to n1 entries (trees with `full=1`: go on until the arena is exactly full), observe,
/// clear, refill to n2 entries (past the old arena size), observe, delete every third key, observe.
/// Stored keys are even, so every gap has a probe.  Order of insertion: ascending / descending /
/// shuffled, rotating with the seed.
pub fn run_scale<C: OrdColl>(tr: &mut Trace, plan: &[(i32, i32)], seed: u64, full: bool, cap: i64, snap_every: u64, deep: i32, faults: bool, sweep: (i32, i32)) {
    let mut rng = Rng::new(seed);
    let mut s: OrdSession<C> = OrdSession::new(tr, 1, 0, 0);
    // clear sweep: every population n of the range (hence every combination of arena size and number of
    // free slots a fill can end in) is cleared and refilled past the old arena size - by bulk calls, so
    // that each n costs a handful of events, each judged on its full snapshot
    for n in sweep.0..=sweep.1 {
        if n <= 0 || s.tr.full() {
            break;
        }
        s.snap_every = 1;
        s.obs_every = 1;
        s.keys = 4 * n + 40;
        s.reset(if cap >= 0 { cap as usize } else { [0usize, 1, 8, 9][(seed as usize + n as usize) % 4] });
        s.apply(&OOp::Bulk { lo: 2, hi: 2 * n, step: 2, ord: n % 3 }, 0);
        if n % 4 == 0 {
            // some fills end with a few removals, so that the free list is not in its initial order
            for k in [2, 2 * n, n - n % 2] {
                s.apply(&OOp::Del { k }, 0);
            }
        }
        s.apply(&OOp::Clear, 0);
        s.apply(&OOp::Empty, 0);
        let m = n + 10 + (n % 7);
        s.apply(&OOp::Bulk { lo: 1, hi: 2 * m - 1, step: 2, ord: (n + 1) % 3 }, 0);
        for k in [1, 2 * m - 1, m | 1, 2, 2 * m] {
            s.apply(&OOp::Get { k }, 0);
            let a = s.apply(&OOp::Fil { p: k }, 0);
            if C::IS_SET && a.ok && a.res >= 0 {
                s.apply(&OOp::After { h: a.res as u32 }, 0);
            }
        }
        s.apply(&OOp::Del { k: 1 }, 0);
        s.apply(&OOp::Del { k: m | 1 }, 0);
        s.apply(&OOp::Ins { k: 0, v: 5 }, 0);
        s.apply(&OOp::Clear, 0);
    }
    if deep > 0 {
        // a tree more than 2 * log2(n) levels deep (monotone insertion), built by one bulk call: look-ups,
        // neighbour steps and removals at the far end of the long spine, and at the near end
        for ord in [0, 1] {
            if ord == 1 && !C::HAS_SNAP {
                break; // a sorted vector filled in descending order moves n^2 / 2 elements
            }
            let n = deep;
            s.snap_every = 1 << 40;
            s.obs_every = 0;
            s.keys = 2 * n + 1;
            s.reset(0);
            s.apply(&OOp::Bulk { lo: 2, hi: 2 * n, step: 2, ord }, 0);
            let (far, near, inward) = if ord == 0 { (2 * n, 2, -2) } else { (2, 2 * n, 2) };
            for k in [far, far + inward, far + 2 * inward, near, n] {
                s.apply(&OOp::Get { k }, 0);
                s.apply(&OOp::Fil { p: k + 1 }, 0);
                s.apply(&OOp::FilBy { th: 2 * k - 1 }, 0);
            }
            if C::IS_SET {
                for start in [far, near] {
                    if let Some(h0) = s.handle_of(start) {
                        for dir in [0, 1] {
                            let mut h = h0;
                            for _ in 0..6 {
                                let a = if dir == 0 { s.apply(&OOp::After { h }, 0) } else { s.apply(&OOp::Before { h }, 0) };
                                if !a.ok || a.res < 0 {
                                    break;
                                }
                                h = a.res as u32;
                            }
                        }
                    }
                }
            }
            s.apply(&OOp::Del { k: far }, 0);
            s.apply(&OOp::Get { k: far }, 0);
            s.apply(&OOp::Del { k: far + inward }, 0);
            s.apply(&OOp::Get { k: far + inward }, 0);
            if let Some(h) = s.handle_of(far + 2 * inward) {
                s.apply(&OOp::DelH { h }, 0);
                s.mine.remove(&(far + 2 * inward));
            }
            s.apply(&OOp::Get { k: far + 2 * inward }, 0);
            s.apply(&OOp::Fil { p: far + 1 }, 0);
            s.apply(&OOp::Ins { k: far + 1, v: (far + 1) * 100 + 3 }, 0);
            s.apply(&OOp::Get { k: far + 1 }, 0);
            s.apply(&OOp::Empty, 0);
            // ... and the deep tree is cleared (or drained key by key, every other round) and used again
            let clear_it = if n > 500_000 { ord == 1 } else { (ord as i64 + seed as i64) % 2 == 0 };
            if clear_it {
                s.apply(&OOp::Clear, 0);
            } else {
                s.apply(&OOp::BulkDel { lo: 0, hi: 2 * n + 2, step: 1, ord: 1 - ord }, 0);
            }
            s.apply(&OOp::Empty, 0);
            s.apply(&OOp::Bulk { lo: 1, hi: 79, step: 2, ord: 2 }, 0);
            for k in (1..=79).step_by(4) {
                s.apply(&OOp::Del { k }, 0);
            }
            for k in [1, 3, 39, 41, 77, 79, 80] {
                s.apply(&OOp::Get { k }, 0);
                s.apply(&OOp::Fil { p: k }, 0);
            }
            s.apply(&OOp::Ins { k: 2, v: 2009 }, 0);
            s.apply(&OOp::Ins { k: 4, v: 4009 }, 0);
            s.apply(&OOp::Get { k: 2 }, 0);
            s.apply(&OOp::Get { k: 3 }, 0);
        }
    }
    for (round, (n1, n2)) in plan.iter().enumerate() {
        if s.tr.full() {
            break;
        }
        let universe = 2 * (*n1).max(*n2) + 16;
        s.keys = 2 * universe + 1;
        s.snap_every = if (*n1).max(*n2) > 48 { snap_every.max(1) } else { 1 };
        s.obs_every = 0;
        s.reset(if cap >= 0 { cap as usize } else { [0usize, 1, 8][(seed as usize + round) % 3] });
        let order = |rng: &mut Rng, n: i32, mode: u64| -> Vec<i32> {
            let mut ks: Vec<i32> = (1..=n).map(|i| 2 * i).collect();
            match mode % 3 {
                1 => ks.reverse(),
                2 => rng.shuffle(&mut ks),
                _ => {}
            }
            ks
        };
        // phase 1: fill (fault runs: at the sizes at which buffers are exactly full or just past it, every
        // callback index of the insertion is made to panic before the insertion is allowed to complete).
        // Trees: a few handles are taken along the way and read again after every later insertion.
        let mut held: Vec<u32> = vec![];
        let mut fill = |s: &mut OrdSession<C>, rng: &mut Rng, held: &mut Vec<u32>, k: i32| {
            let v = s.next_value(k);
            let n = s.mine.len();
            if faults && (n >= 8 && (n.is_power_of_two() || (n - 1).is_power_of_two() || n % 8 == 7)) {
                s.enumerate_faults(&OOp::Ins { k, v }, rng);
                s.mine.insert(k);
                held.clear();
            } else {
                s.apply(&OOp::Ins { k, v }, 0);
            }
            if C::HAS_SNAP && !s.dead {
                for h in held.iter() {
                    s.apply(&OOp::Read { h: *h }, 0);
                }
                if n % 5 == 2 {
                    let kk = *s.mine.iter().nth(rng.range(0, s.mine.len() as i64 - 1) as usize).unwrap();
                    if let Some(h) = s.handle_of(kk) {
                        held.push(h);
                        if held.len() > 5 {
                            held.remove(0);
                        }
                    }
                }
            }
        };
        for k in order(&mut rng, *n1, seed + round as u64) {
            if s.dead {
                break;
            }
            fill(&mut s, &mut rng, &mut held, k);
        }
        if full && C::HAS_SNAP {
            // go on until the arena is exactly full, or has one or two free slots left (rotating)
            let slack = (seed as usize + round) % 3;
            let mut k = 2 * *n1;
            while s.c.free_slots().map_or(false, |f| f != slack) && k < 2 * universe - 2 && !s.dead {
                k += 2;
                fill(&mut s, &mut rng, &mut held, k);
            }
        }
        s.sample_queries(&mut rng, 24);
        // phase 2: clear and refill past the old size
        if *n2 > 0 && !s.dead {
            s.apply(&OOp::Clear, 0);
            s.apply(&OOp::Empty, 0);
            held.clear();
            for k in order(&mut rng, *n2, seed + round as u64 + 1) {
                if s.dead {
                    break;
                }
                fill(&mut s, &mut rng, &mut held, k);
            }
            s.sample_queries(&mut rng, 24);
        }
        // phase 3: delete every third key (by key / through a handle), then look again
        let stored: Vec<i32> = s.mine.iter().cloned().collect();
        for (i, k) in stored.iter().enumerate() {
            if s.dead {
                break;
            }
            if i % 3 == 1 {
                if i % 2 == 0 {
                    s.apply(&OOp::Del { k: *k }, 0);
                } else if let Some(h) = s.handle_of(*k) {
                    s.apply(&OOp::DelH { h }, 0);
                    s.mine.remove(k);
                }
            }
        }
        s.sample_queries(&mut rng, 24);
        if C::IS_SET && !s.dead {
            s.walks();
        }
    }
    if C::COUNTED {
        s.reset(0); // the last instance is dropped under observation, too
    }
}

pub struct RandCfg {
    pub seed: u64,
    pub keys: i32,
    pub steps: u64,
    pub seg_len: u64,
    pub inject: bool,
    pub snap_every: u64,
    /// false: never clear (lets the tree grow large)
    pub clears: bool,
    /// one in `clear_den` of the calls of the last group is a clear (default 5; small = clear churn)
    pub clear_den: u64,
    /// >= 0: every instance is constructed with this capacity hint (default: drawn from 0, 1, 8, 9, 33)
    pub cap: i64,
    /// sets: one call in `walk_den` is followed by full backward and forward walks (0 = never)
    pub walk_den: u64,
}

/// seeded random in-contract histories with handles held across insertions
pub fn run_random<C: OrdColl>(tr: &mut Trace, cfg: &RandCfg) {
    let mut rng = Rng::new(cfg.seed);
    let caps = if cfg.cap >= 0 { [cfg.cap as usize; 5] } else { [0usize, 1, 8, 9, 33] };
    let mut s: OrdSession<C> = OrdSession::new(tr, cfg.keys, caps[(rng.next() % 5) as usize], 5);
    s.snap_every = cfg.snap_every;
    s.reset(s.cap);
    // handles the harness holds (handle, key it was taken for); dropped at every deletion / clear,
    // and (lists) at every insertion
    let mut held: Vec<(u32, i32)> = vec![];
    let mut seg_no = 0u64;
    let mut in_seg = 0u64;
    let mut done = 0u64;
    while done < cfg.steps && !s.tr.full() {
        if in_seg >= cfg.seg_len || s.dead {
            s.reset(caps[(rng.next() % 5) as usize]);
            held.clear();
            in_seg = 0;
        }
        if in_seg == 0 {
            seg_no += 1;
        }
        if in_seg == 0 && cfg.keys >= 12 && s.snap_every <= 1 && seg_no % 2 == 1 {
            // some segments start from a monotone fill: ascending / descending insertion gives the
            // longest spines a red-black tree can have, and a set is then walked end to end
            let mut ks: Vec<i32> = (1..=cfg.keys).collect();
            if seg_no % 4 == 3 {
                ks.reverse();
            }
            let n = rng.range(cfg.keys as i64 / 2, cfg.keys as i64) as usize;
            for k in ks.into_iter().take(n) {
                let v = s.next_value(k);
                s.apply(&OOp::Ins { k, v }, 0);
                done += 1;
            }
            s.walks();
        }
        in_seg += 1;
        done += 1;
        if C::IS_SET && cfg.walk_den > 0 && rng.chance(1, cfg.walk_den) {
            s.walks();
            done += s.mine.len() as u64 / 4;
        }
        let k = rng.range(0, cfg.keys as i64 + 1) as i32;
        let arm = if cfg.inject && rng.chance(1, 5) { rng.range(1, 6) as u64 } else { 0 };
        match rng.range(0, 23) {
            0..=6 => {
                let kk = k.clamp(1, cfg.keys);
                if s.mine.contains(&kk) {
                    s.apply(&OOp::Get { k: kk }, arm);
                } else {
                    let v = s.next_value(kk);
                    let a = s.apply(&OOp::Ins { k: kk, v }, arm);
                    if !C::HAS_SNAP || a.unwound {
                        held.clear();
                    }
                    // handles survive insertions: re-read them
                    for (h, _) in held.clone() {
                        s.apply(&OOp::Read { h }, 0);
                    }
                }
            }
            7..=9 => {
                let a = s.apply(&OOp::Del { k }, arm);
                let _ = a;
                held.clear();
            }
            10..=11 => {
                s.apply(&OOp::Get { k }, arm);
            }
            12 => {
                s.apply(&OOp::Empty, 0);
            }
            13..=15 => {
                let a = if rng.chance(1, 2) { s.apply(&OOp::Fil { p: k }, arm) } else { s.apply(&OOp::FilBy { th: rng.range(0, 2 * cfg.keys as i64 + 3) as i32 }, arm) };
                if a.ok && a.res >= 0 {
                    held.push((a.res as u32, k));
                    if held.len() > 12 {
                        held.remove(0);
                    }
                }
            }
            16 => {
                if let Some(&(h, _)) = held.last() {
                    let a = s.apply(&OOp::Read { h }, 0);
                    if a.ok && a.key >= 0 {
                        let v = s.next_value(a.key);
                        s.apply(&OOp::Write { h, v }, 0);
                        s.apply(&OOp::Read { h }, 0);
                    }
                }
            }
            17..=18 => {
                if !held.is_empty() {
                    let (h, _) = held[(rng.next() % held.len() as u64) as usize];
                    let a = s.apply(&OOp::Read { h }, 0);
                    let d = s.apply(&OOp::DelH { h }, 0);
                    if a.ok && d.ok && a.key >= 0 {
                        s.mine.remove(&a.key);
                    }
                    held.clear();
                }
            }
            19..=21 => {
                if C::IS_SET && !held.is_empty() {
                    let (h, kk) = held[(rng.next() % held.len() as u64) as usize];
                    let a = if rng.chance(1, 2) { s.apply(&OOp::After { h }, 0) } else { s.apply(&OOp::Before { h }, 0) };
                    if a.ok && a.res >= 0 {
                        held.push((a.res as u32, kk));
                    }
                } else {
                    s.apply(&OOp::Fil { p: k }, arm);
                }
            }
            _ => {
                if cfg.clears && rng.chance(1, cfg.clear_den.max(1)) {
                    s.apply(&OOp::Clear, 0);
                    held.clear();
                } else {
                    s.apply(&OOp::Get { k }, arm);
                }
            }
        }
    }
    if C::COUNTED {
        s.reset(0); // the last instance is dropped under observation, too
    }
}

/// re-execute a recorded trace (a replay file written by the check driver) on the current code
pub fn run_replay<C: OrdColl>(tr: &mut Trace, text: &str, keys: i32) {
    let mut s: OrdSession<C> = OrdSession::new(tr, keys, 0, 1);
    for line in text.lines() {
        match fstr(line, "ev").as_deref() {
            Some("reset") => s.reset(fnum(line, "cap").unwrap_or(0) as usize),
            Some("load") => {
                let path: Vec<POp> = fstr(line, "path").unwrap_or_default().split(';').map(|x| x.trim()).filter(|x| !x.is_empty()).map(POp::parse).collect();
                if C::HAS_SNAP && fnum(line, "ind") == Some(1) {
                    if let Some(snap) = parse_snap(line) {
                        s.load_snap(&snap, fnum(line, "cap").unwrap_or(0) as usize);
                    }
                } else if C::HAS_SNAP {
                    s.load(&path, fnum(line, "cap").unwrap_or(0) as usize);
                }
            }
            Some("op") | Some("call") => {
                if s.dead {
                    continue;
                }
                if let Some(op) = OOp::from_event(line) {
                    if !C::IS_SET && matches!(op, OOp::After { .. } | OOp::Before { .. }) {
                        continue;
                    }
                    s.apply(&op, fnum(line, "inj").unwrap_or(0) as u64);
                }
            }
            _ => {}
        }
    }
}
