//! Instrumented key / value types: every user callback the library can make
//! (Ord::cmp, comparator closure, key accessor, expiration accessor) is counted,
//! optionally logged, and can be made to panic at its j-th invocation.
use i_tree::set::sort::KeyValue;
use i_tree::{ExpiredKey, ExpiredVal};
use std::cell::{Cell, RefCell};
use std::cmp::Ordering;

thread_local! {
    static COUNT: Cell<u64> = const { Cell::new(0) };
    static ARM: Cell<u64> = const { Cell::new(0) };
    static CMPLOG: RefCell<Vec<[i32; 6]>> = const { RefCell::new(Vec::new()) };
    static NEXT_ID: Cell<u32> = const { Cell::new(1) };
    static PROBE: Cell<u32> = const { Cell::new(0) };
    static LOGCMP: Cell<bool> = const { Cell::new(true) };
}

/// bulk runs (hundreds of thousands of calls observed as one) do not record their comparisons
pub fn set_cmp_logging(on: bool) {
    LOGCMP.with(|l| l.set(on));
}

/// payload of an injected panic
pub struct Injected;

#[inline]
pub fn callback() {
    let c = COUNT.with(|c| {
        let v = c.get() + 1;
        c.set(v);
        v
    });
    let a = ARM.with(|a| a.get());
    if a != 0 && c == a {
        ARM.with(|a| a.set(0));
        std::panic::panic_any(Injected);
    }
}

/// start observing one library call: reset the counter, arm the j-th callback (0 = none)
pub fn begin(arm: u64) {
    COUNT.with(|c| c.set(0));
    ARM.with(|a| a.set(arm));
    CMPLOG.with(|l| l.borrow_mut().clear());
    PROBE.with(|p| p.set(0));
}

/// stop observing; returns (callbacks made, comparison log)
pub fn end() -> (u64, Vec<[i32; 6]>) {
    ARM.with(|a| a.set(0));
    let n = COUNT.with(|c| c.get());
    let log = CMPLOG.with(|l| std::mem::take(&mut *l.borrow_mut()));
    (n, log)
}

#[inline]
fn log_cmp(a: [i32; 6]) {
    if !LOGCMP.with(|l| l.get()) {
        return;
    }
    CMPLOG.with(|l| l.borrow_mut().push(a));
}

/// expiration recorded for a key that has none (map/set keys, comparator probes)
pub const NOEXP: i32 = -5;

// ---- expiring key -----------------------------------------------------------------
/// `id` identifies the key object (copies share it); it takes no part in the ordering and only
/// lets the log tell the probe / new key of the current call from stored keys
#[derive(Clone, Copy, Debug)]
pub struct XKey {
    pub k: i32,
    pub e: i32,
    pub id: u32,
}
/// a fresh key that is the probe (or the new key) of the call about to be made
pub fn probe(k: i32, e: i32) -> XKey {
    let id = NEXT_ID.with(|n| {
        let v = n.get();
        n.set(v.wrapping_add(1).max(1));
        v
    });
    PROBE.with(|p| p.set(id));
    XKey { k, e, id }
}
/// a key as it sits in a collection (not the probe of any call): for states loaded through the hook
pub fn stored(k: i32, e: i32) -> XKey {
    let id = NEXT_ID.with(|n| {
        let v = n.get();
        n.set(v.wrapping_add(1).max(1));
        v
    });
    XKey { k, e, id }
}
fn is_probe(id: u32) -> i32 {
    (PROBE.with(|p| p.get()) == id) as i32
}
impl Ord for XKey {
    fn cmp(&self, o: &Self) -> Ordering {
        log_cmp([self.k, self.e, is_probe(self.id), o.k, o.e, is_probe(o.id)]);
        callback();
        self.k.cmp(&o.k)
    }
}
impl PartialOrd for XKey {
    fn partial_cmp(&self, o: &Self) -> Option<Ordering> {
        Some(self.cmp(o))
    }
}
impl PartialEq for XKey {
    fn eq(&self, o: &Self) -> bool {
        self.cmp(o) == Ordering::Equal
    }
}
impl Eq for XKey {}
impl ExpiredKey<i32> for XKey {
    fn expiration(&self) -> i32 {
        callback();
        self.e
    }
}
/// comparator closure "compare 2*key with theta" over expiring keys
pub fn by_theta(th: i32) -> impl Fn(XKey) -> Ordering {
    move |key: XKey| {
        log_cmp([key.k, key.e, is_probe(key.id), th, NOEXP, 1]);
        callback();
        (2 * key.k).cmp(&th)
    }
}

// ---- map / set key ----------------------------------------------------------------
#[derive(Clone, Copy, Debug, Default)]
pub struct OKey(pub i32);
impl Ord for OKey {
    fn cmp(&self, o: &Self) -> Ordering {
        callback();
        self.0.cmp(&o.0)
    }
}
impl PartialOrd for OKey {
    fn partial_cmp(&self, o: &Self) -> Option<Ordering> {
        Some(self.cmp(o))
    }
}
impl PartialEq for OKey {
    fn eq(&self, o: &Self) -> bool {
        self.cmp(o) == Ordering::Equal
    }
}
impl Eq for OKey {}
pub fn by_theta_o(th: i32) -> impl Fn(OKey) -> Ordering {
    move |key: OKey| {
        callback();
        (2 * key.0).cmp(&th)
    }
}
pub fn by_theta_oref(th: i32) -> impl Fn(&OKey) -> Ordering {
    move |key: &OKey| {
        callback();
        (2 * key.0).cmp(&th)
    }
}

thread_local! {
    static LIVE: Cell<i64> = const { Cell::new(0) };
}
/// number of `Cnt` payload instances alive (constructed or cloned, and not yet dropped)
pub fn live() -> i64 {
    LIVE.with(|l| l.get())
}

/// payloads: an integer, or a heap-allocated string holding the same integer, or an instance-counting
/// integer (every construction / clone is +1, every drop -1: a value dropped twice or never is seen)
pub trait Payload: Clone + Default {
    const NAME: &'static str;
    const COUNTED: bool = false;
    fn from_i(i: i32) -> Self;
    fn to_i(&self) -> i32;
}
impl Payload for i32 {
    const NAME: &'static str = "i32";
    fn from_i(i: i32) -> Self {
        i
    }
    fn to_i(&self) -> i32 {
        *self
    }
}
impl Payload for String {
    const NAME: &'static str = "String";
    fn from_i(i: i32) -> Self {
        format!("payload-{i}")
    }
    fn to_i(&self) -> i32 {
        match self.strip_prefix("payload-") {
            Some(s) => s.parse().unwrap_or(-888888),
            None => {
                if self.is_empty() {
                    0
                } else {
                    -888888
                }
            }
        }
    }
}

#[derive(Debug)]
pub struct Cnt(pub i32);
impl Cnt {
    fn born() {
        LIVE.with(|l| l.set(l.get() + 1));
    }
}
impl Clone for Cnt {
    fn clone(&self) -> Self {
        Cnt::born();
        Cnt(self.0)
    }
}
impl Default for Cnt {
    fn default() -> Self {
        Cnt::born();
        Cnt(0)
    }
}
impl Drop for Cnt {
    fn drop(&mut self) {
        LIVE.with(|l| l.set(l.get() - 1));
    }
}
impl Payload for Cnt {
    const NAME: &'static str = "Cnt";
    const COUNTED: bool = true;
    fn from_i(i: i32) -> Self {
        Cnt::born();
        Cnt(i)
    }
    fn to_i(&self) -> i32 {
        self.0
    }
}

/// set value: carries its own key plus a payload
#[derive(Clone, Debug, Default)]
pub struct PV<P> {
    pub key: OKey,
    pub payload: P,
}
impl<P> KeyValue<OKey> for PV<P> {
    fn key(&self) -> &OKey {
        callback();
        &self.key
    }
}

// ---- segment value ----------------------------------------------------------------
#[derive(Clone, Copy, Debug)]
pub struct SV {
    pub id: i32,
    pub e: i32,
}
impl ExpiredVal<i32> for SV {
    fn expiration(&self) -> i32 {
        callback();
        self.e
    }
}
