//! Drivers for the expiring-key collections (KeyExpTree, KeyExpList).
//! No oracle lives here: the drivers generate in-contract calls, record what the real code
//! returned plus a structural snapshot, and TLC judges the log against the specification.
use crate::inst::{self, XKey};
use crate::out::*;
use i_tree::key::array::IntoArray;
use i_tree::key::exp::KeyExpCollection;
use i_tree::key::list::KeyExpList;
use i_tree::key::tree::KeyExpTree;
use std::fmt::Write as FmtWrite;

pub const DEFAULT: i32 = -7;
/// `now` of a session before any time has been supplied (new instance / after clear)
pub const NO_TIME: i32 = i32::MIN;
/// arenas above this size are reported by their size only (a snapshot would be hundreds of MB)
pub const MAX_SNAPSHOT_SLOTS: usize = 50_000;

pub trait KeyColl: KeyExpCollection<XKey, i32, i32> + Sized {
    const NAME: &'static str;
    const HAS_SNAP: bool;
    fn make(cap: usize) -> Self;
    /// `"snap":{...}` or empty
    fn snap_json(&self) -> String;
    /// canonical form of the physical state (slot names abstracted away)
    fn canon(&self) -> String;
    fn export(self, t: i32) -> Vec<i32>;
    /// (key, expiration) of the entries reachable from the root according to the snapshot hook
    fn stored(&self) -> Option<Vec<(i32, i32)>> {
        None
    }
    /// (tree) the collection put into a given arena state through the `verif_load` hook
    fn from_snap(_s: &Snap) -> Option<Self> {
        None
    }
    /// (tree) length of the free list according to the snapshot hook
    fn free_slots(&self) -> Option<usize> {
        None
    }
}

impl KeyColl for KeyExpTree<XKey, i32, i32> {
    const NAME: &'static str = "KeyExpTree";
    const HAS_SNAP: bool = true;
    fn make(cap: usize) -> Self {
        KeyExpTree::new(cap)
    }
    fn snap_json(&self) -> String {
        let s = self.verif_snapshot();
        if s.nodes.len() > MAX_SNAPSHOT_SLOTS {
            // resource cut-off, not a verdict: the size itself is logged and judged by TLC
            return format!("\"arena\":{{\"slots\":{},\"free\":{}}}", s.nodes.len(), s.unused.len());
        }
        let mut o = String::with_capacity(64 + 40 * s.nodes.len());
        let _ = write!(o, "\"snap\":{{\"root\":{},\"nd\":[", r32(s.root));
        for (i, n) in s.nodes.iter().enumerate() {
            if i > 0 {
                o.push(',');
            }
            let _ = write!(
                o,
                "[{},{},{},{},{},{},{}]",
                r32(n.parent),
                r32(n.left),
                r32(n.right),
                n.red as u8,
                n.key.k,
                n.val,
                n.key.e
            );
        }
        o.push_str("],\"free\":[");
        for (i, u) in s.unused.iter().enumerate() {
            if i > 0 {
                o.push(',');
            }
            let _ = write!(o, "{}", u);
        }
        let _ = write!(o, "],\"ucap\":{}}}", s.unused_capacity);
        o
    }
    fn canon(&self) -> String {
        let s = self.verif_snapshot();
        let mut o = String::new();
        fn walk<K: Copy, V: Copy>(
            s: &i_tree::key::verif::VerifSnapshot<K, V>,
            i: u32,
            depth: usize,
            o: &mut String,
            f: &dyn Fn(&K, &V) -> String,
        ) {
            if i == i_tree::EMPTY_REF || depth > 80 || (i as usize) >= s.nodes.len() {
                o.push('.');
                return;
            }
            let n = &s.nodes[i as usize];
            o.push('(');
            o.push_str(&f(&n.key, &n.val));
            o.push(if n.red { 'r' } else { 'b' });
            walk(s, n.left, depth + 1, o, f);
            walk(s, n.right, depth + 1, o, f);
            o.push(')');
        }
        walk(&s, s.root, 0, &mut o, &|k: &XKey, v: &i32| format!("{}/{}/{}", k.k, k.e, v));
        let _ = write!(o, "|{}|{}", s.nodes.len(), s.unused.len());
        o
    }
    fn export(self, t: i32) -> Vec<i32> {
        self.into_ordered_vec(t)
    }
    fn stored(&self) -> Option<Vec<(i32, i32)>> {
        let s = self.verif_snapshot();
        let mut out = vec![];
        let mut stack = vec![(s.root, 0usize)];
        while let Some((i, d)) = stack.pop() {
            if i == i_tree::EMPTY_REF || d > 80 || (i as usize) >= s.nodes.len() {
                continue;
            }
            let n = &s.nodes[i as usize];
            out.push((n.key.k, n.key.e));
            stack.push((n.left, d + 1));
            stack.push((n.right, d + 1));
        }
        Some(out)
    }
    fn free_slots(&self) -> Option<usize> {
        Some(self.verif_snapshot().unused.len())
    }
    fn from_snap(s: &Snap) -> Option<Self> {
        use i_tree::key::verif::{VerifNode, VerifSnapshot};
        let nodes = s
            .nd
            .iter()
            .map(|n| VerifNode { parent: u32r(n[0]), left: u32r(n[1]), right: u32r(n[2]), red: n[3] != 0, key: inst::stored(n[4] as i32, n[6] as i32), val: n[5] as i32 })
            .collect();
        Some(KeyExpTree::verif_load(VerifSnapshot { root: u32r(s.root), nodes, unused: s.free.clone(), unused_capacity: s.ucap }))
    }
}

impl KeyColl for KeyExpList<XKey, i32, i32> {
    const NAME: &'static str = "KeyExpList";
    const HAS_SNAP: bool = false;
    fn make(cap: usize) -> Self {
        KeyExpList::new(cap)
    }
    fn snap_json(&self) -> String {
        String::new()
    }
    fn canon(&self) -> String {
        String::new()
    }
    fn export(self, t: i32) -> Vec<i32> {
        self.into_ordered_vec(t)
    }
}

#[derive(Clone, Debug)]
pub enum KOp {
    Ins { k: i32, e: i32, v: i32, t: i32 },
    Lt { t: i32, p: i32 },
    Le { t: i32, p: i32 },
    By { t: i32, th: i32 },
    Get { t: i32, k: i32 },
    Empty,
    Clear,
    Export { t: i32 },
    /// insert(k, value k, expiration e, time t) for every k of lo..=hi, observed as one call;
    /// ord: 0 ascending, 1 descending, 2 a fixed pseudo-random order
    Bulk { lo: i32, hi: i32, e: i32, t: i32, ord: i32 },
}

/// the order in which a bulk run inserts its keys
pub fn bulk_order(lo: i32, hi: i32, ord: i32) -> Vec<i32> {
    let mut ks: Vec<i32> = (lo..=hi).collect();
    match ord {
        1 => ks.reverse(),
        2 => Rng::new(lo as u64 * 31 + hi as u64).shuffle(&mut ks),
        _ => {}
    }
    ks
}

impl KOp {
    pub fn time(&self) -> Option<i32> {
        match self {
            KOp::Ins { t, .. } | KOp::Lt { t, .. } | KOp::Le { t, .. } | KOp::By { t, .. } | KOp::Get { t, .. } | KOp::Export { t } | KOp::Bulk { t, .. } => Some(*t),
            _ => None,
        }
    }
    pub fn desc(&self) -> String {
        match self {
            KOp::Ins { k, e, v, t } => format!("\"op\":\"ins\",\"k\":{k},\"e\":{e},\"v\":{v},\"t\":{t}"),
            KOp::Lt { t, p } => format!("\"op\":\"lt\",\"t\":{t},\"p\":{p},\"d\":{DEFAULT}"),
            KOp::Le { t, p } => format!("\"op\":\"le\",\"t\":{t},\"p\":{p},\"d\":{DEFAULT}"),
            KOp::By { t, th } => format!("\"op\":\"by\",\"t\":{t},\"p\":{th},\"d\":{DEFAULT}"),
            KOp::Get { t, k } => format!("\"op\":\"get\",\"t\":{t},\"p\":{k}"),
            KOp::Empty => "\"op\":\"empty\"".to_string(),
            KOp::Clear => "\"op\":\"clear\"".to_string(),
            KOp::Export { t } => format!("\"op\":\"export\",\"t\":{t}"),
            KOp::Bulk { lo, hi, e, t, ord } => format!("\"op\":\"bulk\",\"lo\":{lo},\"hi\":{hi},\"e\":{e},\"t\":{t},\"ord\":{ord}"),
        }
    }
    pub fn to_path(&self) -> String {
        match self {
            KOp::Ins { k, e, v, t } => format!("i {k} {e} {v} {t}"),
            KOp::Lt { t, p } => format!("lt {t} {p}"),
            KOp::Le { t, p } => format!("le {t} {p}"),
            KOp::By { t, th } => format!("by {t} {th}"),
            KOp::Get { t, k } => format!("get {t} {k}"),
            KOp::Empty => "e".to_string(),
            KOp::Clear => "c".to_string(),
            KOp::Export { t } => format!("x {t}"),
            KOp::Bulk { lo, hi, e, t, ord } => format!("b {lo} {hi} {e} {t} {ord}"),
        }
    }
    /// rebuild the call from a logged event line
    pub fn from_event(line: &str) -> Option<KOp> {
        let n = |k: &str| fnum(line, k).map(|v| v as i32);
        Some(match fstr(line, "op")?.as_str() {
            "ins" => KOp::Ins { k: n("k")?, e: n("e")?, v: n("v")?, t: n("t")? },
            "lt" => KOp::Lt { t: n("t")?, p: n("p")? },
            "le" => KOp::Le { t: n("t")?, p: n("p")? },
            "by" => KOp::By { t: n("t")?, th: n("p")? },
            "get" => KOp::Get { t: n("t")?, k: n("p")? },
            "empty" => KOp::Empty,
            "clear" => KOp::Clear,
            "export" => KOp::Export { t: n("t")? },
            "bulk" => KOp::Bulk { lo: n("lo")?, hi: n("hi")?, e: n("e")?, t: n("t")?, ord: n("ord")? },
            _ => return None,
        })
    }
    pub fn parse(s: &str) -> KOp {
        let f: Vec<&str> = s.split_whitespace().collect();
        let n = |i: usize| -> i32 { f[i].parse().expect("number in path op") };
        match f[0] {
            "i" => KOp::Ins { k: n(1), e: n(2), v: n(3), t: n(4) },
            "lt" => KOp::Lt { t: n(1), p: n(2) },
            "le" => KOp::Le { t: n(1), p: n(2) },
            "by" => KOp::By { t: n(1), th: n(2) },
            "get" => KOp::Get { t: n(1), k: n(2) },
            "e" => KOp::Empty,
            "c" => KOp::Clear,
            "x" => KOp::Export { t: n(1) },
            "b" => KOp::Bulk { lo: n(1), hi: n(2), e: n(3), t: n(4), ord: n(5) },
            other => panic!("unknown path op {other}"),
        }
    }
}

pub struct KeySession<'a, C: KeyColl> {
    pub c: Option<C>,
    pub tr: &'a mut Trace,
    /// the harness's own record of what it inserted since the last clear (k, e): used only to
    /// stay inside the contract (no live duplicate), never to judge a result
    pub mine: Vec<(i32, i32)>,
    pub now: i32,
    pub keys: i32,
    pub cap: usize,
    pub obs_every: u64,
    /// ship the snapshot only with every n-th call (large trees); 1 = always
    pub snap_every: u64,
    opcount: u64,
    pub version: i32,
    pub last_unwound: bool,
    pub last_panicked: bool,
}

impl<'a, C: KeyColl> KeySession<'a, C> {
    pub fn new(tr: &'a mut Trace, keys: i32, cap: usize, obs_every: u64) -> Self {
        let mut s = KeySession { c: None, tr, mine: vec![], now: NO_TIME, keys, cap, obs_every, snap_every: 1, opcount: 0, version: 0, last_unwound: false, last_panicked: false };
        s.reset(cap);
        s
    }
    pub fn reset(&mut self, cap: usize) {
        self.cap = cap;
        self.tr.pre(&format!("\"op\":\"construct\",\"cap\":{},\"out\":\"aborted\"", cap));
        let c = match observe(0, || C::make(cap)).out {
            Outcome::Ok(c) => c,
            Outcome::Panic(m) => {
                self.tr.line(&format!("\"ev\":\"op\",\"op\":\"construct\",\"cap\":{},\"out\":\"panic\",\"msg\":\"{}\"", cap, esc(&m)));
                self.tr.end_after_fatal()
            }
            Outcome::Unwound(_) => unreachable!(),
        };
        let snap = c.snap_json();
        self.c = Some(c);
        self.mine.clear();
        self.now = NO_TIME;
        self.last_panicked = false;
        let sep = if snap.is_empty() { "" } else { "," };
        self.tr.line(&format!("\"ev\":\"reset\",\"coll\":\"{}\",\"cap\":{},\"se\":{}{}{}", C::NAME, cap, self.snap_every, sep, snap));
    }
    pub fn live_dup(&self, k: i32, t: i32) -> bool {
        self.mine.iter().any(|&(kk, e)| kk == k && e > t)
    }
    pub fn next_value(&mut self, k: i32, e: i32) -> i32 {
        self.version = (self.version + 1) % 10;
        k * 1000 + (e.rem_euclid(100)) * 10 + self.version
    }
    /// `get_value` of every key of the universe at the current time (lists have no snapshot)
    fn obs_json(&mut self) -> String {
        let now = self.now;
        let keys = self.keys;
        let c = self.c.as_mut().unwrap();
        self.tr.pre("\"op\":\"obs-sweep\",\"out\":\"aborted\"");
        let r = observe(0, || {
            let mut o = String::from("\"obs\":[");
            let mut first = true;
            for k in 0..=keys + 1 {
                if let Some(v) = c.get_value(now, inst::probe(k, inst::NOEXP)) {
                    if !first {
                        o.push(',');
                    }
                    first = false;
                    let _ = write!(o, "[{},{}]", k, v);
                }
            }
            o.push(']');
            o
        });
        match r.out {
            Outcome::Ok(o) => o,
            _ => "\"obspanic\":1".to_string(),
        }
    }
    fn state_fields(&mut self, force_obs: bool) -> String {
        if C::HAS_SNAP {
            if force_obs || self.snap_every <= 1 || self.opcount % self.snap_every == 0 {
                self.c.as_ref().unwrap().snap_json()
            } else {
                String::new()
            }
        } else if force_obs || (self.obs_every > 0 && self.opcount % self.obs_every == 0) {
            self.obs_json()
        } else {
            String::new()
        }
    }
    /// `load`: a fan-out segment starts from the state reached by an (unlogged) replay of a path
    pub fn load(&mut self, path: &[KOp], cap: usize) {
        self.cap = cap;
        self.mine.clear();
        self.now = NO_TIME;
        // the replay is not logged call by call, but it is still the code under test: a panic inside
        // it must not take the harness down (journal mode records it as one pseudo call)
        self.tr.pre("\"op\":\"load-replay\",\"out\":\"aborted\"");
        let mut mine: Vec<(i32, i32)> = vec![];
        let mut now = NO_TIME;
        let o = observe(0, || {
            let mut c = C::make(cap);
            for op in path {
                match op {
                    KOp::Ins { k, e, v, t } => {
                        c.insert(inst::probe(*k, *e), *v, *t);
                        mine.push((*k, *e));
                        now = *t;
                    }
                    KOp::Lt { t, p } => {
                        c.first_less(*t, DEFAULT, inst::probe(*p, inst::NOEXP));
                        now = *t;
                    }
                    KOp::Le { t, p } => {
                        c.first_less_or_equal(*t, DEFAULT, inst::probe(*p, inst::NOEXP));
                        now = *t;
                    }
                    KOp::By { t, th } => {
                        c.first_less_or_equal_by(*t, DEFAULT, inst::by_theta(*th));
                        now = *t;
                    }
                    KOp::Get { t, k } => {
                        c.get_value(*t, inst::probe(*k, inst::NOEXP));
                        now = *t;
                    }
                    KOp::Empty => {
                        c.is_empty();
                    }
                    KOp::Clear => {
                        c.clear();
                        mine.clear();
                        now = NO_TIME;
                    }
                    KOp::Export { .. } => panic!("export inside a path"),
                    KOp::Bulk { lo, hi, e, t, ord } => {
                        for k in bulk_order(*lo, *hi, *ord) {
                            c.insert(inst::probe(k, *e), k, *t);
                            mine.push((k, *e));
                        }
                        now = *t;
                    }
                }
            }
            c
        });
        match o.out {
            Outcome::Ok(c) => {
                // after an unlogged replay the harness learns from the same snapshot TLC gets what
                // the tree physically holds (its own record stands in where there is no snapshot)
                self.mine = c.stored().unwrap_or(mine);
                self.c = Some(c);
                self.now = now;
                self.last_panicked = false;
            }
            _ => {
                // replay the path again, this time logged, so that the failing call becomes an event
                self.reset(cap);
                for op in path {
                    if !self.apply(op, 0) || self.last_panicked {
                        break;
                    }
                }
                return;
            }
        }
        let snap = self.c.as_ref().unwrap().snap_json();
        let ptxt: Vec<String> = path.iter().map(|o| o.to_path()).collect();
        self.tr.line(&format!("\"ev\":\"load\",\"coll\":\"{}\",\"cap\":{},\"now\":{},\"path\":\"{}\",{}", C::NAME, cap, self.now, ptxt.join(";"), snap));
    }

    /// start of a one-step segment: the tree is put into the given arena state through the
    /// `verif_load` hook (a start state of IndKey.tla, or the `load` event of a replay file)
    pub fn load_snap(&mut self, snap: &Snap, cap: usize, now: i32) -> bool {
        assert!(C::HAS_SNAP);
        self.cap = cap;
        self.mine.clear();
        self.now = now;
        self.tr.pre("\"op\":\"load-snap\",\"out\":\"aborted\"");
        match observe(0, || C::from_snap(snap)).out {
            Outcome::Ok(Some(c)) => {
                self.mine = c.stored().unwrap_or_default();
                self.c = Some(c);
                self.last_panicked = false;
            }
            _ => return false,
        }
        let snapj = self.c.as_ref().unwrap().snap_json();
        self.tr.line(&format!("\"ev\":\"load\",\"coll\":\"{}\",\"cap\":{},\"now\":{},\"path\":\"\",\"ind\":1,{}", C::NAME, cap, now, snapj));
        true
    }

    /// performs one call on the real collection and logs it; returns false when the
    /// collection was consumed (export) or cannot be used further
    pub fn apply(&mut self, op: &KOp, arm: u64) -> bool {
        // nothing more is asked of an instance that was consumed by an export or whose last call
        // ended in a panic nobody injected (until the next reset / load)
        if self.c.is_none() || self.last_panicked {
            return false;
        }
        self.opcount += 1;
        let desc = op.desc();
        if self.snap_every > 1 {
        } else if C::HAS_SNAP {
            let canon = self.c.as_ref().unwrap().canon();
            self.tr.pair(&canon, &desc);
        } else {
            let st = format!("{:?}@{}", self.mine, self.now);
            self.tr.pair(&st, &desc);
        }
        self.tr.pre(&format!("{},\"out\":\"aborted\"", desc));
        if let Some(t) = op.time() {
            self.now = t;
        }
        let mut alive = true;
        let mut extra = String::new();
        let fields;
        let ncb;
        let cmp;
        let mut unwound = false;
        match op {
            KOp::Export { t } => {
                let c = self.c.take().unwrap();
                let o = observe(arm, move || {
                    let v = c.export(*t);
                    (v.capacity(), v)
                });
                if let Outcome::Ok((capacity, v)) = &o.out {
                    let vv: Vec<i64> = v.iter().map(|x| *x as i64).collect();
                    let _ = write!(extra, ",\"res\":{},\"vcap\":{}", list_json(&vv), capacity);
                }
                fields = out_fields(&o);
                ncb = o.ncb;
                cmp = o.cmp;
                alive = false;
            }
            _ => {
                let c = self.c.as_mut().unwrap();
                let o = match op {
                    KOp::Ins { k, e, v, t } => {
                        let o = observe(arm, || {
                            c.insert(inst::probe(*k, *e), *v, *t);
                            0i64
                        });
                        // the harness's record follows what was asked; after an unwound insert the
                        // entry may or may not be present - the next insert of that key is avoided
                        self.mine.push((*k, *e));
                        o
                    }
                    KOp::Bulk { lo, hi, e, t, ord } => {
                        let ks = bulk_order(*lo, *hi, *ord);
                        inst::set_cmp_logging(false);
                        let o = observe(arm, || {
                            for k in &ks {
                                c.insert(inst::probe(*k, *e), *k, *t);
                            }
                            0i64
                        });
                        inst::set_cmp_logging(true);
                        for k in ks {
                            self.mine.push((k, *e));
                        }
                        o
                    }
                    KOp::Lt { t, p } => observe(arm, || c.first_less(*t, DEFAULT, inst::probe(*p, inst::NOEXP)) as i64),
                    KOp::Le { t, p } => observe(arm, || c.first_less_or_equal(*t, DEFAULT, inst::probe(*p, inst::NOEXP)) as i64),
                    KOp::By { t, th } => observe(arm, || c.first_less_or_equal_by(*t, DEFAULT, inst::by_theta(*th)) as i64),
                    KOp::Get { t, k } => observe(arm, || match c.get_value(*t, inst::probe(*k, inst::NOEXP)) {
                        Some(v) => v as i64,
                        None => -999999,
                    }),
                    KOp::Empty => observe(arm, || c.is_empty() as i64),
                    KOp::Clear => {
                        let o = observe(arm, || {
                            c.clear();
                            0i64
                        });
                        self.mine.clear();
                        self.now = NO_TIME;
                        o
                    }
                    KOp::Export { .. } => unreachable!(),
                };
                if let Outcome::Ok(r) = &o.out {
                    match op {
                        KOp::Ins { .. } | KOp::Clear | KOp::Bulk { .. } => {}
                        _ => {
                            let _ = write!(extra, ",\"res\":{}", r);
                        }
                    }
                }
                if let Outcome::Unwound(_) = &o.out {
                    unwound = true;
                }
                fields = out_fields(&o);
                ncb = o.ncb;
                cmp = o.cmp;
            }
        }
        self.last_unwound = unwound;
        self.last_panicked = fields.contains("\"out\":\"panic\"");
        let st = if alive { self.state_fields(unwound) } else { String::new() };
        let sep = if st.is_empty() { "" } else { "," };
        self.tr.line(&format!(
            "\"ev\":\"op\",{}{},{},\"ncb\":{},\"cmp\":{}{}{}",
            desc,
            extra,
            fields,
            ncb,
            cmp_json(&cmp),
            sep,
            st
        ));
        alive
    }

    /// all in-contract calls of the alphabet at the current state, for times now..=tmax
    pub fn alphabet(&mut self, tmax: i32, with_export: bool) -> Vec<KOp> {
        let mut v = vec![KOp::Empty];
        for t in self.now.max(0)..=tmax {
            for p in 0..=self.keys + 1 {
                v.push(KOp::Lt { t, p });
                v.push(KOp::Le { t, p });
                v.push(KOp::Get { t, k: p });
            }
            for th in 1..=2 * self.keys + 1 {
                v.push(KOp::By { t, th });
            }
            for k in 1..=self.keys {
                if !self.live_dup(k, t) {
                    for e in t..=tmax + 1 {
                        let val = k * 1000 + e * 10 + 9;
                        v.push(KOp::Ins { k, e, v: val, t });
                    }
                }
            }
            if with_export {
                v.push(KOp::Export { t });
            }
        }
        v.push(KOp::Clear);
        v
    }
}

/// where a fan-out segment starts: the end of a path (re-created by replay), or a loaded arena state
pub enum Start<'p> {
    Path(&'p [KOp], usize),
    State(&'p Snap, i32),
}

fn reload<C: KeyColl>(s: &mut KeySession<C>, start: &Start) {
    match start {
        Start::State(snap, now) => {
            s.load_snap(snap, 0, *now);
        }
        Start::Path(path, cap) => {
            if C::HAS_SNAP {
                s.load(path, *cap);
            } else {
                s.reset(*cap);
                let save = s.obs_every;
                s.obs_every = 0;
                for op in *path {
                    s.apply(op, 0);
                }
                s.obs_every = save;
            }
        }
    }
}

/// every call of the alphabet from the state the session is in (`start` re-creates it)
fn fan_out<C: KeyColl>(s: &mut KeySession<C>, start: &Start, tmax: i32, with_export: bool) {
    let calls = s.alphabet(tmax, with_export);
    let mut fresh = true; // the instance is still in the start state
    let mut base = if C::HAS_SNAP { s.c.as_ref().unwrap().snap_json() } else { String::new() };
    for call in &calls {
        let t_ok = call.time().map_or(true, |t| t >= s.now);
        if !fresh || !t_ok {
            reload::<C>(s, start);
            if C::HAS_SNAP {
                base = s.c.as_ref().unwrap().snap_json();
            }
        }
        let alive = s.apply(call, 0);
        if !alive {
            fresh = false;
            continue;
        }
        // keep the instance only if the call left the physical state untouched
        fresh = if C::HAS_SNAP {
            !matches!(call, KOp::Ins { .. } | KOp::Clear) && s.c.as_ref().unwrap().snap_json() == base
        } else {
            false
        };
    }
}

/// replay TLC-generated paths on the real collection (logged), then fan out the alphabet
/// from the state each path ends in
pub fn run_paths<C: KeyColl>(tr: &mut Trace, paths: &[(usize, Vec<KOp>)], keys: i32, tmax: i32, fanout: bool, with_export: bool) {
    let mut s: KeySession<C> = KeySession::new(tr, keys, 0, 1);
    for (cap, path) in paths {
        if s.tr.full() {
            break;
        }
        // 1. the path itself, every step logged (spec -> code)
        s.reset(*cap);
        for op in path {
            s.apply(op, 0);
        }
        if !fanout {
            continue;
        }
        // 2. every call of the alphabet from the state reached
        fan_out::<C>(&mut s, &Start::Path(path, *cap), tmax, with_export);
        // 3. nothing a look-up leaves behind may survive expiry, a clear and the restart of the clock: look a
        // key up, let everything expire (queries at every later time), clear, look it up again at early times
        let start = Start::Path(path, *cap);
        reload::<C>(&mut s, &start);
        let stored: Vec<i32> = {
            let mut v: Vec<i32> = s.mine.iter().map(|x| x.0).collect();
            v.sort();
            v.dedup();
            v
        };
        let now0 = s.now.max(0);
        for (i, k) in stored.iter().enumerate() {
            if i > 0 {
                reload::<C>(&mut s, &start);
            }
            s.apply(&KOp::Get { t: now0, k: *k }, 0);
            s.apply(&KOp::Le { t: now0, p: *k }, 0);
            for t in now0 + 1..=tmax + 2 {
                s.apply(&KOp::Le { t, p: keys + 1 }, 0);
            }
            s.apply(&KOp::Clear, 0);
            for t in 0..=1 {
                s.apply(&KOp::Get { t, k: *k }, 0);
                s.apply(&KOp::Le { t, p: keys + 1 }, 0);
                s.apply(&KOp::Lt { t, p: keys + 1 }, 0);
            }
            s.apply(&KOp::Ins { k: *k, e: 3, v: k * 1000 + 37, t: 1 }, 0);
            s.apply(&KOp::Get { t: 1, k: *k }, 0);
        }
    }
}

/// (see ord.rs) red-rooted start states are used only with an implementation that itself leaves a root
/// red: the original does when a two-entry tree loses its root to expiry
fn leaves_roots_red<C: KeyColl>() -> bool {
    if !C::HAS_SNAP {
        return false;
    }
    let r = observe(0, || {
        let mut c = C::make(0);
        c.insert(inst::probe(1, 1), 1, 0);
        c.insert(inst::probe(2, 9), 2, 0);
        c.get_value(5, inst::probe(2, inst::NOEXP));
        c.snap_json()
    });
    match r.out {
        Outcome::Ok(j) => parse_snap(&j).map_or(false, |s| root_is_red(&s)),
        _ => false,
    }
}
fn root_is_red(s: &Snap) -> bool {
    s.root >= 0 && (s.root as usize) < s.nd.len() && s.nd[s.root as usize][3] == 1
}

/// One step of every kind from every start state TLC printed for IndKey.tla: every red-black tree up
/// to a size x every pattern of expirations 1 / 2, the clock at 0.  The real tree is put into the
/// state through the load hook; the alphabet ranges over both times.
/// the four query forms for every probe at the time the short-lived entries have just expired (time 1),
/// each from a freshly loaded copy of the start state - the part of the alphabet in which lazy removal
/// and the search interact; affordable for start states of seven and eight nodes
pub fn run_ind_queries<C: KeyColl>(tr: &mut Trace, states: &[Snap]) {
    let red_roots = leaves_roots_red::<C>();
    let mut s: KeySession<C> = KeySession::new(tr, 1, 0, 1);
    for snap in states {
        if s.tr.full() {
            break;
        }
        if root_is_red(snap) && !red_roots {
            continue;
        }
        if !s.load_snap(snap, 0, 0) {
            continue;
        }
        let top = s.mine.iter().map(|x| x.0).max().unwrap_or(0) + 1;
        s.keys = top;
        let base = s.c.as_ref().unwrap().snap_json();
        let mut fresh = true;
        for p in 0..=top + 1 {
            for op in [KOp::Lt { t: 1, p }, KOp::Le { t: 1, p }, KOp::Get { t: 1, k: p }, KOp::By { t: 1, th: 2 * p + 1 }] {
                if !fresh {
                    s.load_snap(snap, 0, 0);
                }
                s.apply(&op, 0);
                fresh = s.c.as_ref().map_or(false, |c| c.snap_json() == base);
            }
        }
    }
}

pub fn run_ind<C: KeyColl>(tr: &mut Trace, states: &[Snap], with_export: bool) {
    let red_roots = leaves_roots_red::<C>();
    let mut s: KeySession<C> = KeySession::new(tr, 1, 0, 1);
    for snap in states {
        if s.tr.full() {
            break;
        }
        if root_is_red(snap) && !red_roots {
            continue;
        }
        if !s.load_snap(snap, 0, 0) {
            continue;
        }
        let top = s.mine.iter().map(|x| x.0).max().unwrap_or(0) + 1;
        s.keys = top;
        fan_out::<C>(&mut s, &Start::State(snap, 0), 1, with_export);
    }
}

/// Fault enumeration from the start states of IndKey.tla: every red-black tree up to a size x every
/// pattern of expired / live nodes.  At time 1 (the entries with expiration 1 have just expired) every
/// query form for every probe and every insertion into every gap is made with its j-th callback
/// panicking, j = 1, 2, .. until the call completes; after each the stored keys are looked up.
pub fn run_ind_faults<C: KeyColl>(tr: &mut Trace, states: &[Snap]) {
    let red_roots = leaves_roots_red::<C>();
    let mut s: KeySession<C> = KeySession::new(tr, 1, 0, 1);
    for snap in states {
        if s.tr.full() {
            break;
        }
        if root_is_red(snap) && !red_roots {
            continue;
        }
        if !s.load_snap(snap, 0, 0) {
            continue;
        }
        let stored: Vec<i32> = s.mine.iter().map(|x| x.0).collect();
        let top = stored.iter().cloned().max().unwrap_or(0) + 1;
        s.keys = top;
        let mut calls: Vec<KOp> = vec![];
        for p in 0..=top + 1 {
            calls.push(KOp::Le { t: 1, p });
            calls.push(KOp::Get { t: 1, k: p });
            calls.push(KOp::Lt { t: 1, p });
            calls.push(KOp::By { t: 1, th: 2 * p + 1 });
        }
        for k in 1..=top {
            if !s.live_dup(k, 1) {
                calls.push(KOp::Ins { k, e: 2, v: k * 1000 + 29, t: 1 });
            }
        }
        for call in &calls {
            let mut j = 1u64;
            loop {
                if !s.load_snap(snap, 0, 0) {
                    break;
                }
                s.apply(call, j);
                let unwound = s.last_unwound;
                for k in &stored {
                    s.apply(&KOp::Get { t: 1, k: *k }, 0);
                }
                s.apply(&KOp::Le { t: 1, p: top + 1 }, 0);
                if !unwound || j > 120 {
                    break;
                }
                j += 1;
            }
        }
    }
}

/// fault enumeration: for every path, every call of the alphabet and every callback index j the
/// call makes, the j-th user callback panics; afterwards the collection is observed and used again
pub fn run_faults<C: KeyColl>(tr: &mut Trace, paths: &[(usize, Vec<KOp>)], keys: i32, tmax: i32) {
    let mut s: KeySession<C> = KeySession::new(tr, keys, 0, 1);
    for (cap, path) in paths {
        if s.tr.full() {
            break;
        }
        reload::<C>(&mut s, &Start::Path(path, *cap));
        let calls = s.alphabet(tmax, false);
        let mut dirty = false;
        for call in &calls {
            if matches!(call, KOp::Empty | KOp::Clear) {
                continue;
            }
            let mut j = 1u64;
            loop {
                if dirty {
                    reload::<C>(&mut s, &Start::Path(path, *cap));
                }
                dirty = true;
                if let Some(t) = call.time() {
                    if t < s.now {
                        break;
                    }
                }
                s.apply(call, j);
                // did it unwind? (last event says so); cheap test: ask the instrumentation
                let unwound = s.last_unwound;
                // the collection must still be usable: observe everything, then mutate again (also after
                // the control run in which no callback panicked)
                let t = s.now.max(0);
                for p in 0..=keys + 1 {
                    s.apply(&KOp::Get { t, k: p }, 0);
                }
                s.apply(&KOp::Le { t, p: keys + 1 }, 0);
                let mut done = false;
                for k in 1..=keys {
                    if !s.live_dup(k, t) {
                        let e = t + 1;
                        s.apply(&KOp::Ins { k, e, v: k * 1000 + e * 10 + 8, t }, 0);
                        done = true;
                        break;
                    }
                }
                let _ = done;
                s.apply(&KOp::Lt { t, p: keys + 1 }, 0);
                // ... and one instant later (an entry that was stored by the unwound call must expire on time)
                if matches!(call, KOp::Ins { .. }) && t < tmax + 1 {
                    for p in 0..=keys + 1 {
                        s.apply(&KOp::Get { t: t + 1, k: p }, 0);
                    }
                }
                if !unwound {
                    break;
                }
                j += 1;
                if j > 200 {
                    break;
                }
            }
        }
    }
}

/// seeded random in-contract histories
/// Threshold sweep for the expiring-key collections: sizes and coincidences far outside the
/// exhaustive universes, driven deterministically.
///  A  fill until the arena is exactly full (7, 15, 23, 39 entries), clear, a few short-lived
///     entries, queries while they expire one by one, export
///  B  many entries that expire together plus long-lived survivors inserted first and last
///     (low and high slots), queries and export after the mass expiry
///  C  drain churn: hundreds of rounds in which the collection fills with one to three entries
///     and is emptied again by lazy expiry; finally a few entries and an export (capacity)
///  D  (deep > 0) `deep` ascending keys inserted as one bulk call: look-ups at the far end of a
///     tree more than 2 * log2(n) levels deep, a query after all of them have expired (one call
///     removes them all), and the export of a tree of that size
pub fn run_scale<C: KeyColl>(tr: &mut Trace, seed: u64, rounds: &str, deep: i32) {
    let mut rng = Rng::new(seed);
    let mut s: KeySession<C> = KeySession::new(tr, 8, 0, 0);
    // all four query forms for every probe; which form comes first rotates with the time and the
    // probe, so that each of them gets to be the call that meets a freshly expired entry
    let probes = |s: &mut KeySession<C>, t: i32, hi: i32| {
        for p in 0..=hi {
            let ops = [KOp::Le { t, p }, KOp::Lt { t, p }, KOp::Get { t, k: p }, KOp::By { t, th: 2 * p + 1 }];
            let r = (t + p).rem_euclid(4) as usize;
            for i in 0..4 {
                s.apply(&ops[(r + i) % 4], 0);
            }
        }
    };
    if rounds.contains('S') {
        // clear sweep: every population n of the range (hence every combination of arena size and free
        // slots a fill can end in) is cleared and refilled past the old arena size by bulk calls; the
        // refill expires all at once around a survivor
        let (lo, hi) = (deep.max(1), (deep + 44).max(1));
        for n in lo..=hi {
            if s.tr.full() {
                break;
            }
            s.snap_every = 1;
            s.obs_every = 1;
            s.keys = n + 20;
            s.reset([0usize, 1, 8, 9][(seed as usize + n as usize) % 4]);
            s.apply(&KOp::Bulk { lo: 1, hi: n, e: 1000, t: 0, ord: n % 3 }, 0);
            s.apply(&KOp::Clear, 0);
            s.apply(&KOp::Empty, 0);
            let m = n + 10 + (n % 7);
            s.apply(&KOp::Bulk { lo: 1, hi: m, e: 5, t: 0, ord: (n + 1) % 3 }, 0);
            let v = s.next_value(m + 1, 1000);
            s.apply(&KOp::Ins { k: m + 1, e: 1000, v, t: 0 }, 0);
            s.apply(&KOp::Get { t: 1, k: m / 2 + 1 }, 0);
            let after = [KOp::Le { t: 10, p: m }, KOp::Get { t: 10, k: m + 1 }, KOp::Lt { t: 10, p: m + 2 }, KOp::Get { t: 10, k: m / 2 }];
            for i in 0..4 {
                s.apply(&after[(n as usize + i) % 4], 0);
            }
            s.apply(&KOp::Clear, 0);
        }
    }
    if rounds.contains('A') {
        for target in [7usize, 15, 23, 39] {
            s.snap_every = 1;
            s.reset([0usize, 1, 8][(seed as usize + target) % 3]);
            let mut k = 0;
            loop {
                k += 1;
                let v = s.next_value(k, 1000);
                s.apply(&KOp::Ins { k, e: 1000, v, t: 0 }, 0);
                let n = k as usize;
                let full = s.c.as_ref().unwrap().free_slots().map_or(true, |f| f == 0);
                if (n >= target && full) || n >= target + 40 {
                    break;
                }
            }
            s.apply(&KOp::Le { t: 0, p: k + 1 }, 0);
            s.apply(&KOp::Clear, 0);
            s.apply(&KOp::Empty, 0);
            let exps = [1, 5, 1, 5, 2, 1000, 3, 2];
            let mut order: Vec<usize> = (0..exps.len()).collect();
            if seed % 2 == 1 {
                rng.shuffle(&mut order);
            }
            for i in order {
                let kk = i as i32 + 1;
                let v = s.next_value(kk, exps[i]);
                s.apply(&KOp::Ins { k: kk, e: exps[i], v, t: 0 }, 0);
            }
            for t in 0..=6 {
                probes(&mut s, t, 9);
            }
            s.apply(&KOp::Export { t: 6 }, 0);
        }
    }
    if rounds.contains('B') {
        for n in [17, 40, 100] {
            s.snap_every = if n > 48 { 8 } else { 1 };
            s.reset(0);
            if n != 40 {
                // a survivor in a low slot (n = 40: the survivors sit in the highest slots only)
                let v = s.next_value(1000, 1000);
                s.apply(&KOp::Ins { k: 1000, e: 1000, v, t: 0 }, 0);
            }
            let mut ks: Vec<i32> = (1..=n).collect();
            match (seed + n as u64) % 3 {
                1 => ks.reverse(),
                2 => rng.shuffle(&mut ks),
                _ => {}
            }
            for k in ks {
                let v = s.next_value(k, 5);
                s.apply(&KOp::Ins { k, e: 5, v, t: 0 }, 0);
            }
            for k in [500, 2000] {
                let v = s.next_value(k, 1000);
                s.apply(&KOp::Ins { k, e: 1000, v, t: 0 }, 0);
            }
            s.apply(&KOp::Get { t: 4, k: n / 2 }, 0);
            // everything but the three survivors expires at 5
            let first = [KOp::Le { t: 10, p: 1001 }, KOp::Get { t: 10, k: 500 }, KOp::Lt { t: 10, p: 2001 }, KOp::By { t: 10, th: 999 }][(seed % 4) as usize].clone();
            s.apply(&first, 0);
            for p in [0, 1, n / 2, n, 499, 500, 501, 1000, 1001, 2000, 2001] {
                s.apply(&KOp::Get { t: 10, k: p }, 0);
                s.apply(&KOp::Le { t: 10, p }, 0);
                s.apply(&KOp::Lt { t: 10, p }, 0);
            }
            s.apply(&KOp::Export { t: 10 }, 0);
        }
    }
    if rounds.contains('F') {
        // fault enumeration in a collection of a dozen entries, three of them expired at the time of
        // the call: every callback index of a query / an insertion that has to purge them panics in
        // turn; afterwards everything is looked at, at that time and later
        let exps = [20, 3, 20, 20, 3, 20, 20, 20, 3, 20, 20, 20];
        for (oi, op) in [KOp::Le { t: 5, p: 13 }, KOp::Ins { k: 13, e: 20, v: 13209, t: 5 }, KOp::Get { t: 5, k: 6 }, KOp::Lt { t: 5, p: 2 }, KOp::Ins { k: 13, e: 6, v: 13069, t: 5 }, KOp::Ins { k: 0, e: 7, v: 79, t: 4 }]
            .iter()
            .enumerate()
        {
            let mut j = 1u64;
            loop {
                s.snap_every = 1;
                s.obs_every = 1;
                s.keys = 14;
                s.reset([0usize, 16][oi % 2]);
                for (i, e) in exps.iter().enumerate() {
                    let k = i as i32 + 1;
                    let v = s.next_value(k, *e);
                    s.apply(&KOp::Ins { k, e: *e, v, t: 0 }, 0);
                }
                s.apply(op, j);
                let unwound = s.last_unwound;
                for t in [5, 6, 7, 8] {
                    probes(&mut s, t, 14);
                }
                if !unwound || j > 80 {
                    break;
                }
                j += 1;
            }
        }
    }
    if rounds.contains('G') {
        // 200 entries whose expirations are in no relation to their key order; look-ups between the
        // expirations (an entry that expires earlier sits behind one that expires later, and vice versa)
        s.snap_every = 16;
        s.obs_every = 8;
        s.keys = 201;
        s.reset(0);
        let n = 200;
        for k in 1..=n {
            let e = 10 + (k * 37) % 90;
            let v = s.next_value(k, e);
            s.apply(&KOp::Ins { k, e, v, t: 0 }, 0);
        }
        for t in [5, 15, 20, 33, 50, 60, 77, 95, 101] {
            for _ in 0..24 {
                let p = rng.range(0, n as i64 + 1) as i32;
                let ops = [KOp::Le { t, p }, KOp::Get { t, k: p }, KOp::Lt { t, p }, KOp::By { t, th: 2 * p + 1 }];
                let r = rng.range(0, 3) as usize;
                s.apply(&ops[r], 0);
                s.apply(&ops[(r + 1) % 4], 0);
            }
        }
        s.apply(&KOp::Export { t: 101 }, 0);
        // the same size in blocks: the front expires late, the back half early / half never - after the first
        // purge the earliest expiration left sits in the untouched front (and, mirrored, in the back)
        for mirrored in [false, true] {
            s.reset(0);
            for k in 1..=n {
                let front = if mirrored { k > 100 } else { k <= 100 };
                let e = if front { 50 + k % 30 } else if k % 2 == 1 { 20 } else { 500 };
                let v = s.next_value(k, e);
                s.apply(&KOp::Ins { k, e, v, t: 0 }, 0);
            }
            for t in [25, 49, 60, 85, 100] {
                for p in [0, 1, 9, 10, 11, 50, 99, 100, 101, 102, 150, 151, 199, 200, 201] {
                    let ops = [KOp::Le { t, p }, KOp::Get { t, k: p }, KOp::Lt { t, p }];
                    let r = ((t + p) % 3) as usize;
                    s.apply(&ops[r], 0);
                    s.apply(&ops[(r + 1) % 3], 0);
                }
            }
            s.apply(&KOp::Export { t: 100 }, 0);
        }
    }
    if rounds.contains('C') {
        s.snap_every = 1;
        s.reset(0);
        let mut t = 0;
        for round in 0..220 {
            let cnt = 1 + (round % 3);
            for j in 0..cnt {
                let k = (round * 7 + j * 3) % 11 + 1;
                if !s.live_dup(k, t) {
                    let v = s.next_value(k, t + 1);
                    s.apply(&KOp::Ins { k, e: t + 1, v, t }, 0);
                }
            }
            t += 2;
            match round % 4 {
                0 => s.apply(&KOp::Le { t, p: 12 }, 0),
                1 => s.apply(&KOp::Get { t, k: (round % 11) + 1 }, 0),
                2 => s.apply(&KOp::Lt { t, p: 12 }, 0),
                _ => s.apply(&KOp::By { t, th: 25 }, 0),
            };
            if round % 10 == 0 {
                s.apply(&KOp::Empty, 0);
            }
        }
        for k in 1..=5 {
            let v = s.next_value(k, t + 100);
            s.apply(&KOp::Ins { k, e: t + 100, v, t }, 0);
        }
        s.apply(&KOp::Export { t }, 0);
    }
    if rounds.contains('D') && deep > 0 {
        let n = deep;
        // (1) a deep tree of live entries: look-ups at both ends, export of all of them
        s.snap_every = 1 << 40;
        s.obs_every = 0; // (no observation sweeps over collections of this size)
        s.keys = n + 2;
        s.reset(0);
        s.apply(&KOp::Bulk { lo: 1, hi: n, e: 1000, t: 0, ord: 0 }, 0);
        for p in [n, n - 1, n / 2, 1, 0, n + 1] {
            s.apply(&KOp::Get { t: 1, k: p }, 0);
            s.apply(&KOp::Le { t: 1, p }, 0);
            s.apply(&KOp::Lt { t: 1, p }, 0);
        }
        s.apply(&KOp::Export { t: 1 }, 0);
        // (3) a populated arena of more than 4096 slots is cleared and used again with staggered expirations
        s.reset(0);
        s.apply(&KOp::Bulk { lo: 1, hi: (n / 4).max(4200), e: 1000, t: 0, ord: 2 }, 0);
        s.apply(&KOp::Le { t: 0, p: 10 }, 0);
        s.apply(&KOp::Clear, 0);
        s.apply(&KOp::Empty, 0);
        s.snap_every = 1;
        s.keys = 25;
        s.obs_every = 4;
        let exps = [9, 5, 1, 5, 2, 1000, 3, 2, 7, 1, 4, 8, 6, 3, 1000, 2, 5, 1, 9, 4, 6, 7, 3, 8];
        for (i, e) in exps.iter().enumerate() {
            let k = i as i32;
            let v = s.next_value(k, *e);
            s.apply(&KOp::Ins { k, e: *e, v, t: 0 }, 0);
        }
        for t in 0..=9 {
            for p in [0, 1, 5, 11, 12, 17, 23, 24] {
                let ops = [KOp::Le { t, p }, KOp::Get { t, k: p }, KOp::Lt { t, p }];
                for i in 0..3 {
                    s.apply(&ops[((t + p) as usize + i) % 3], 0);
                }
            }
        }
        s.apply(&KOp::Export { t: 9 }, 0);
        s.snap_every = 1 << 40;
        s.obs_every = 0;
        s.keys = n + 2;
        // (2) the same size, all stale at once between two survivors
        s.reset(0);
        let v = s.next_value(0, 1000);
        s.apply(&KOp::Ins { k: 0, e: 1000, v, t: 0 }, 0);
        s.apply(&KOp::Bulk { lo: 1, hi: n, e: 5, t: 0, ord: (seed % 2) as i32 }, 0);
        let v = s.next_value(n + 1, 1000);
        s.apply(&KOp::Ins { k: n + 1, e: 1000, v, t: 0 }, 0);
        s.apply(&KOp::Le { t: 10, p: n }, 0);
        s.apply(&KOp::Get { t: 10, k: n + 1 }, 0);
        s.apply(&KOp::Get { t: 10, k: n / 2 }, 0);
        s.apply(&KOp::Export { t: 10 }, 0);
    }
}

pub struct RandCfg {
    pub seed: u64,
    pub keys: i32,
    pub tspan: i32,
    pub steps: u64,
    pub seg_len: u64,
    pub inject: bool,
    pub snap_every: u64,
    /// false: never clear (lets the tree grow large)
    pub clears: bool,
    /// one in `clear_den` of the calls of the last group is a clear (default 6; small = clear churn)
    pub clear_den: u64,
    /// >= 0: every instance is constructed with this capacity hint (default: drawn from 0, 1, 8, 9, 33)
    pub cap: i64,
}

pub fn run_random<C: KeyColl>(tr: &mut Trace, cfg: &RandCfg) {
    let mut rng = Rng::new(cfg.seed);
    let caps = if cfg.cap >= 0 { [cfg.cap as usize; 5] } else { [0usize, 1, 8, 9, 33] };
    let mut s: KeySession<C> = KeySession::new(tr, cfg.keys, caps[(rng.next() % 5) as usize], 7);
    s.snap_every = cfg.snap_every;
    s.reset(s.cap);
    let mut in_seg = 0u64;
    let mut done = 0u64;
    // the caller's clock starts anywhere (sweep-line coordinates are often negative) and restarts
    // there after a clear
    let bases = [0i32, 0, -1000, 1_000_000, -2_000_000_000];
    let mut base = bases[(rng.next() % 5) as usize];
    let mut clock = base;
    while done < cfg.steps && !s.tr.full() {
        if in_seg >= cfg.seg_len {
            // end the segment with an export (the collection is consumed), then start afresh;
            // now and then the clock first runs to the end of time (nothing is live at E::MAX)
            let mut t = clock.max(s.now) + rng.range(0, 2) as i32;
            if rng.chance(1, 4) {
                t = i32::MAX;
                let k = rng.range(0, cfg.keys as i64 + 1) as i32;
                s.apply(&KOp::Le { t, p: k }, 0);
                s.apply(&KOp::Get { t, k }, 0);
                s.apply(&KOp::Lt { t, p: cfg.keys + 1 }, 0);
                s.apply(&KOp::By { t, th: 2 * cfg.keys + 1 }, 0);
                s.apply(&KOp::Empty, 0);
            }
            base = bases[(rng.next() % 5) as usize];
            clock = base;
            s.apply(&KOp::Export { t }, 0);
            s.reset(caps[(rng.next() % 5) as usize]);
            in_seg = 0;
            done += 1;
            continue;
        }
        in_seg += 1;
        done += 1;
        // the caller's clock: it only reaches the collection as the argument of a call
        if s.now != NO_TIME && s.now > clock {
            clock = s.now;
        }
        if rng.chance(1, 4) {
            clock += rng.range(0, 2) as i32;
        }
        if rng.chance(1, 45) {
            // a long pause of the caller: everything stored so far (but the never-expiring entries)
            // expires at once; the next call is a key-driven query bounded above every key, so its
            // search has to remove the whole chain of expired roots
            clock += 3 * cfg.tspan + 1;
            let t = clock;
            if rng.chance(1, 2) {
                s.apply(&KOp::Le { t, p: cfg.keys + 1 }, 0);
            } else {
                s.apply(&KOp::Lt { t, p: cfg.keys + 1 }, 0);
            }
            s.apply(&KOp::Get { t, k: rng.range(1, cfg.keys as i64) as i32 }, 0);
            continue;
        }
        let t = clock;
        let k = rng.range(0, cfg.keys as i64 + 1) as i32;
        let arm = if cfg.inject && rng.chance(1, 5) { rng.range(1, 6) as u64 } else { 0 };
        let alive = match rng.range(0, 19) {
            0..=7 => {
                let kk = k.clamp(1, cfg.keys);
                if s.live_dup(kk, t) {
                    s.apply(&KOp::Get { t, k: kk }, arm)
                } else {
                    // now and then an entry that never expires (E::max_expiration())
                    let e = if rng.chance(1, 12) { i32::MAX } else { t + rng.range(0, cfg.tspan as i64) as i32 };
                    let v = s.next_value(kk, e);
                    s.apply(&KOp::Ins { k: kk, e, v, t }, arm)
                }
            }
            8..=9 => s.apply(&KOp::Lt { t, p: k }, arm),
            10..=11 => s.apply(&KOp::Le { t, p: k }, arm),
            12..=13 => s.apply(&KOp::By { t, th: rng.range(0, 2 * cfg.keys as i64 + 3) as i32 }, arm),
            14..=16 => s.apply(&KOp::Get { t, k }, arm),
            17 => s.apply(&KOp::Empty, 0),
            18 => {
                if cfg.clears && rng.chance(1, cfg.clear_den.max(1)) {
                    clock = base; // the clock may restart after a clear
                    s.apply(&KOp::Clear, 0)
                } else {
                    s.apply(&KOp::Le { t, p: k }, arm)
                }
            }
            _ => s.apply(&KOp::By { t, th: 2 * k }, arm),
        };
        if !alive {
            s.reset(caps[(rng.next() % 5) as usize]);
            in_seg = 0;
            base = bases[(rng.next() % 5) as usize];
            clock = base;
        }
    }
}

pub fn parse_paths(text: &str) -> Vec<(usize, Vec<KOp>)> {
    let mut out = vec![];
    for line in text.lines() {
        let line = line.trim();
        if line.is_empty() || line.starts_with('#') {
            continue;
        }
        let (cap, rest) = match line.split_once('|') {
            Some((c, r)) => (c.trim().parse::<usize>().expect("cap"), r),
            None => (0usize, line),
        };
        let ops: Vec<KOp> = rest.split(';').map(|s| s.trim()).filter(|s| !s.is_empty()).map(KOp::parse).collect();
        out.push((cap, ops));
    }
    out
}

/// re-execute a recorded trace (a replay file written by the check driver) on the current code
pub fn run_replay<C: KeyColl>(tr: &mut Trace, text: &str, keys: i32) {
    let mut s: KeySession<C> = KeySession::new(tr, keys, 0, 1);
    let mut alive = true;
    for line in text.lines() {
        match fstr(line, "ev").as_deref() {
            Some("reset") => {
                s.reset(fnum(line, "cap").unwrap_or(0) as usize);
                alive = true;
            }
            Some("load") => {
                let path: Vec<KOp> = fstr(line, "path").unwrap_or_default().split(';').map(|x| x.trim()).filter(|x| !x.is_empty()).map(KOp::parse).collect();
                if C::HAS_SNAP && fnum(line, "ind") == Some(1) {
                    if let Some(snap) = parse_snap(line) {
                        s.load_snap(&snap, fnum(line, "cap").unwrap_or(0) as usize, fnum(line, "now").unwrap_or(0) as i32);
                    }
                } else {
                    s.load(&path, fnum(line, "cap").unwrap_or(0) as usize);
                }
                alive = true;
            }
            Some("op") | Some("call") => {
                if !alive {
                    continue;
                }
                if let Some(op) = KOp::from_event(line) {
                    alive = s.apply(&op, fnum(line, "inj").unwrap_or(0) as u64);
                }
            }
            _ => {}
        }
    }
}

/// C19: capacity of the exported vector against the number of entries, for every size 0..=64 in
/// three insertion orders and then for powers of ten.  The driver stops growing once a capacity
/// is far beyond any linear bound (a memory safety cut-off for the sandbox, not a verdict: the
/// event that triggered it is logged and judged by TLC like all others).
pub fn run_sizes<C: KeyColl>(tr: &mut Trace, max: u64, seed: u64) {
    let mut rng = Rng::new(seed);
    let mut sizes: Vec<(u64, &'static str)> = vec![];
    for n in 0..=64u64 {
        for o in ["asc", "desc", "shuffled"] {
            sizes.push((n, o));
        }
    }
    let mut n = 100u64;
    while n <= max {
        for o in ["asc", "desc", "shuffled"] {
            sizes.push((n, o));
            sizes.push((n + n / 2 + 1, o));
        }
        n *= 10;
    }
    tr.line(&format!("\"ev\":\"reset\",\"coll\":\"{}\",\"cap\":0", C::NAME));
    // few entries in a large arena: a big capacity hint; many entries cleared away; many expired away
    for (label, big) in [("hint", 3000usize), ("cleared", 2500), ("expired", 2500), ("hint", 40000), ("cleared", 40000)] {
        let few = 10usize;
        let mut stored = few;
        if label == "expired" {
            stored = 0; // unknown to the harness: reported by the snapshot below where there is one
        }
        tr.pre(&format!("\"op\":\"build\",\"n\":{},\"out\":\"aborted\"", big));
        let built = observe(0, || {
            let mut c = if label == "hint" { C::make(big) } else { C::make(0) };
            match label {
                "cleared" => {
                    for k in 1..=big as i32 {
                        c.insert(inst::probe(k, 10), k, 0);
                    }
                    c.clear();
                    for k in 1..=few as i32 {
                        c.insert(inst::probe(k, 10), k, 0);
                    }
                }
                "expired" => {
                    // ascending keys expiring at 1, then look-ups at time 2 remove what they meet
                    for k in 1..=big as i32 {
                        c.insert(inst::probe(k, if k <= few as i32 { 10 } else { 1 }), k, 0);
                    }
                    for k in (1..=big as i32).step_by(3) {
                        c.get_value(2, inst::probe(k, inst::NOEXP));
                    }
                }
                _ => {
                    for k in 1..=few as i32 {
                        c.insert(inst::probe(k, 10), k, 0);
                    }
                }
            }
            c
        });
        let c = match built.out {
            Outcome::Ok(c) => c,
            _ => {
                tr.line(&format!("\"ev\":\"op\",\"op\":\"build\",\"n\":{},{}", big, out_fields(&built)));
                continue;
            }
        };
        let snap = c.snap_json();
        if label == "expired" {
            if snap.is_empty() {
                continue; // the list ships no snapshot: its stored count cannot be logged
            }
            tr.line(&format!("\"ev\":\"load\",\"coll\":\"{}\",\"cap\":0,\"now\":2,\"path\":\"\",{}", C::NAME, snap));
            let desc = "\"op\":\"export\",\"t\":2".to_string();
            tr.pre(&format!("{},\"out\":\"aborted\"", desc));
            let o = observe(0, move || {
                let v = c.export(2);
                (v.capacity(), v)
            });
            let mut extra = String::new();
            if let Outcome::Ok((capacity, v)) = &o.out {
                let vv: Vec<i64> = v.iter().map(|x| *x as i64).collect();
                let _ = write!(extra, ",\"res\":{},\"vcap\":{}", list_json(&vv), capacity);
            }
            tr.line(&format!("\"ev\":\"op\",{}{},{},\"ncb\":0,\"cmp\":[]", desc, extra, out_fields(&o)));
            tr.line(&format!("\"ev\":\"reset\",\"coll\":\"{}\",\"cap\":0", C::NAME));
            continue;
        }
        let desc = format!("\"op\":\"exportn\",\"n\":{},\"order\":\"{}-{}\"", stored, label, big);
        tr.pre(&format!("{},\"out\":\"aborted\"", desc));
        let o = observe(0, move || {
            let v = c.export(0);
            let sorted = v.windows(2).all(|w| w[0] < w[1]);
            (v.capacity(), v.len(), sorted)
        });
        let mut extra = String::new();
        if let Outcome::Ok((cap, len, sorted)) = &o.out {
            let _ = write!(extra, ",\"vcap\":{},\"len\":{},\"sorted\":{}", cap, len, *sorted as u8);
        }
        tr.line(&format!("\"ev\":\"op\",{}{},{}", desc, extra, out_fields(&o)));
    }
    for (n, order) in sizes {
        let mut keys: Vec<i32> = (1..=n as i32).collect();
        match order {
            "desc" => keys.reverse(),
            "shuffled" => rng.shuffle(&mut keys),
            _ => {}
        }
        tr.pre(&format!("\"op\":\"build\",\"n\":{},\"out\":\"aborted\"", n));
        let built = observe(0, || {
            let mut c = C::make(0);
            for k in &keys {
                c.insert(inst::probe(*k, 10), *k, 0);
            }
            c
        });
        let c = match built.out {
            Outcome::Ok(c) => c,
            _ => {
                tr.line(&format!("\"ev\":\"op\",\"op\":\"build\",\"n\":{},{}", n, out_fields(&built)));
                continue;
            }
        };
        let desc = format!("\"op\":\"exportn\",\"n\":{},\"order\":\"{}\"", n, order);
        tr.pre(&format!("{},\"out\":\"aborted\"", desc));
        let o = observe(0, move || {
            let v = c.export(0);
            let sorted = v.windows(2).all(|w| w[0] < w[1]);
            (v.capacity(), v.len(), sorted)
        });
        let mut extra = String::new();
        let mut stop = false;
        if let Outcome::Ok((cap, len, sorted)) = &o.out {
            let _ = write!(extra, ",\"vcap\":{},\"len\":{},\"sorted\":{}", cap, len, *sorted as u8);
            stop = *cap as u64 > 64 * n + 4096;
        }
        tr.line(&format!("\"ev\":\"op\",{}{},{}", desc, extra, out_fields(&o)));
        if stop && n > 64 {
            break;
        }
    }
}
